// C14 - ray casting visits a connected, in-bounds chain of cells covering the segment.
// Engine E1: one RayCasting object is driven through a history of setOrigin / setEnd /
// cast / next calls that consume or over-run its traversal state; every cast that names
// its end point is compared exactly with a freshly constructed caster (history clause)
// and the structural / geometric clauses are evaluated as per-cast invariants.
#include <memory>
#include "../sim/core/runner.hpp"
#include "romea_core_common/containers/grid/RayTracing.hpp"

using namespace sim;

namespace {

enum OpKind {SET_ORIGIN = 0, SET_END, CAST0, CAST1, CAST2, TRAVERSE, NEXT_BURST, SWITCH_GRID, CAST_ALIAS, REASSIGN_GRID, COPY_CASTER};
const char * kOpName[] = {"setOriginPoint", "setEndPoint", "cast()", "cast(end)", "cast(origin,end)", "setEndPoint+next()*", "next() burst", "setGridIndexMapping(other grid)", "cast with the caster's own point references", "grid object reassigned in place", "continue on a copy of the caster"};

struct Op {int kind = 0; double o[3] = {0, 0, 0}; double e[3] = {0, 0, 0}; int count = 0;};

struct Plan
{
  int junk = 0;   // index of the byte every fresh heap allocation is filled with (sim::junkHeap)
  bool isFloat = false; int dim = 2;
  double res = 0.1; double lower[3] = {0, 0, 0}, upper[3] = {1, 1, 1};
  bool defaultCtor = false;   // RayCasting() + setGridIndexMapping instead of RayCasting(mapping)
  bool rangeCtor = false;     // GridIndexMapping(maximalRange, resolution): extent [-range, range] on every axis
  std::vector<Op> ops;
};

template<class S> struct EpsOf;
template<> struct EpsOf<float> {static constexpr long double v = 1.1920929e-07L;};
template<> struct EpsOf<double> {static constexpr long double v = 2.220446049250313e-16L;};

template<class S, size_t DIM>
Outcome runCaster(const Plan & p, Ctx & c)
{
  using Map = romea::core::GridIndexMapping<S, DIM>;
  using RC = romea::core::RayCasting<S, DIM>;
  using Pt = typename RC::PointType; using CI = typename RC::CellIndexes;
  using Ray = romea::core::VectorOfEigenVector<CI>;
  Pt lo, up; for (size_t k = 0; k < DIM; ++k) {lo[(long)k] = (S)p.lower[k]; up[(long)k] = (S)p.upper[k];}
  if (p.rangeCtor) {for (size_t k = 0; k < DIM; ++k) {lo[(long)k] = -(S)p.upper[0]; up[(long)k] = (S)p.upper[0];}}
  std::unique_ptr<Map> map(p.rangeCtor ? new Map((S)p.upper[0], (S)p.res) : new Map(romea::core::Interval<S, DIM>(lo, up), (S)p.res));
  // a second grid over the same extent with another resolution: the caster can be pointed at it and back
  std::unique_ptr<Map> map2(new Map(romea::core::Interval<S, DIM>(lo, up), (S)(p.res * 1.75 <= 1.0 ? p.res * 1.75 : p.res)));   // stays inside the resolution and cell-count domain
  Map * cur = map.get(); bool onSecond = false;
  std::unique_ptr<RC> rc(p.defaultCtor ? new RC : new RC(cur));
  if (p.defaultCtor) {rc->setGridIndexMapping(cur); SIM_PROBE("caster_default_constructed_then_given_the_grid");}
  if (p.rangeCtor) {SIM_PROBE("grid_built_from_maximal_range");}
  long double res = 0; size_t ncell[3] = {1, 1, 1}; long double maxCoord = 0;
  auto adoptGrid = [&]() {
      res = (long double)cur->getCellResolution(); maxCoord = 0;
      for (size_t k = 0; k < DIM; ++k) {
        ncell[k] = cur->getNumberOfCellsAlongAxes()[(long)k];
        const auto & cc = cur->getCellCentersPositionAlong(k);
        maxCoord = std::max<long double>(maxCoord, std::max(std::fabs((long double)cc.front()), std::fabs((long double)cc.back())) + res);
      }
    };
  adoptGrid();
  auto pt = [&](const double * v) {Pt q; for (size_t k = 0; k < DIM; ++k) {
        // points are kept inside the extent also after conversion to the grid's scalar type
        S s = (S)v[k]; if (s < lo[(long)k]) {s = lo[(long)k];} if (s > up[(long)k]) {s = up[(long)k];} q[(long)k] = s;} return q;};
  auto centre = [&](size_t axis, size_t idx) {return (long double)cur->getCellCentersPositionAlong(axis)[idx];};

  bool originSet = false; Pt curO = Pt::Zero(); size_t no = 0; bool stateConsumed = false;
  bool freshEnd = false; Pt curE = Pt::Zero();   // setEndPoint was the previous call: cast() then has a named end point

  // ---- invariants of one cast result (input clauses) and equality with a fresh caster (history clause)
  auto checkRay = [&](const Ray & ray, const Pt & o, const Pt & e, const char * how) -> Outcome {
      // fresh twin: a new caster on the same grid, given only origin and end
      RC twin(cur);
      Ray want = twin.cast(o, e);
      c.log(ray.size());
      for (auto & ci : ray) {for (size_t k = 0; k < DIM; ++k) {c.log(ci[(long)k]);}}
      bool same = ray.size() == want.size();
      for (size_t i = 0; same && i < ray.size(); ++i) {if (ray[i] != want[i]) {same = false;}}
      if (!same) {
        return Outcome::fail("differs-from-fresh-caster", fmt("op #%zu (%s): the reused caster returns %zu cells, a fresh caster %zu cells "
                 "for the same grid, origin and end point (first difference matters: state left over from earlier calls)", no, how,
                 ray.size(), want.size()));
      }
      if (ray.empty()) {return Outcome::fail("empty-ray", fmt("op #%zu (%s): empty result", no, how));}
      long double len = 0; for (size_t k = 0; k < DIM; ++k) {long double d = (long double)e[(long)k] - (long double)o[(long)k]; len += d * d;}
      len = std::sqrt(len);
      const long double tau = (long double)(ray.size() + 2) * EpsOf<S>::v * (len + maxCoord);
      // in bounds (an unsigned wrap-around shows up here)
      for (size_t i = 0; i < ray.size(); ++i) {
        for (size_t k = 0; k < DIM; ++k) {
          if (ray[i][(long)k] >= ncell[k]) {
            return Outcome::fail("cell-out-of-grid", fmt("op #%zu (%s): cell %zu of the ray has index %zu along axis %zu, the grid has %zu cells",
                     no, how, i, (size_t)ray[i][(long)k], k, ncell[k]));
          }
        }
      }
      // first cell contains the origin
      for (size_t k = 0; k < DIM; ++k) {
        long double cc = centre(k, ray[0][(long)k]);
        if (std::fabs((long double)o[(long)k] - cc) > res / 2 + 4 * EpsOf<S>::v * maxCoord) {
          return Outcome::fail("first-cell-not-origin-cell", fmt("op #%zu (%s): first cell index %zu along axis %zu does not contain the origin coordinate %.17Lg",
                   no, how, (size_t)ray[0][(long)k], k, (long double)o[(long)k]));
        }
      }
      // count = L1 distance between first and last cell + 1, face adjacency
      size_t l1 = 0;
      for (size_t k = 0; k < DIM; ++k) {
        size_t a = ray.front()[(long)k], b = ray.back()[(long)k]; l1 += a > b ? a - b : b - a;
      }
      for (size_t i = 1; i < ray.size(); ++i) {
        size_t moved = 0;
        for (size_t k = 0; k < DIM; ++k) {size_t a = ray[i - 1][(long)k], b = ray[i][(long)k]; moved += a > b ? a - b : b - a;}
        if (moved != 1) {
          return Outcome::fail("not-face-adjacent", fmt("op #%zu (%s): cells %zu and %zu of the ray are %zu index steps apart", no, how, i - 1, i, moved));
        }
      }
      if (ray.size() != l1 + 1) {
        return Outcome::fail("wrong-cell-count", fmt("op #%zu (%s): %zu cells returned, L1 distance between first and last cell is %zu", no, how, ray.size(), l1));
      }
      // every cell's closed box (inflated by tau) meets the segment
      for (size_t i = 0; i < ray.size(); ++i) {
        long double t0 = 0, t1 = 1; bool hit = true;
        for (size_t k = 0; k < DIM && hit; ++k) {
          long double a = (long double)o[(long)k], d = (long double)e[(long)k] - a;
          long double bl = centre(k, ray[i][(long)k]) - res / 2 - tau, bh = centre(k, ray[i][(long)k]) + res / 2 + tau;
          if (d == 0) {if (a < bl || a > bh) {hit = false;}} else {
            long double ta = (bl - a) / d, tb = (bh - a) / d; if (ta > tb) {std::swap(ta, tb);}
            t0 = std::max(t0, ta); t1 = std::min(t1, tb); if (t0 > t1) {hit = false;}
          }
        }
        if (!hit) {
          return Outcome::fail("cell-not-crossed-by-segment", fmt("op #%zu (%s): cell %zu of %zu is not crossed by the segment (tolerance %.3Lg = %.3Lg cells)",
                   no, how, i, ray.size(), tau, tau / res));
        }
      }
      // last cell contains the end point; if the end point is clear of every border, it is exactly its cell
      bool clear = true; bool exactCell = true;
      for (size_t k = 0; k < DIM; ++k) {
        long double ek = (long double)e[(long)k], cc = centre(k, ray.back()[(long)k]);
        if (std::fabs(ek - cc) > res / 2 + tau) {
          return Outcome::fail("last-cell-misses-end-point", fmt("op #%zu (%s): the last cell (index %zu along axis %zu, centre %.9Lg) does not contain the end "
                   "coordinate %.9Lg (tolerance %.3Lg = %.3Lg cells)", no, how, (size_t)ray.back()[(long)k], k, cc, ek, tau, tau / res));
        }
        long double rel = (ek - (centre(k, 0) - res / 2)) / res; long double fr = rel - std::floor(rel);
        if (fr * res <= tau || (1 - fr) * res <= tau) {clear = false;}
        if ((size_t)std::floor(rel) != ray.back()[(long)k]) {exactCell = false;}
      }
      if (clear && !exactCell) {return Outcome::fail("last-cell-not-end-cell", fmt("op #%zu (%s): the end point is clear of every cell border but the ray does not end in its cell", no, how));}
      if (!clear) {SIM_PROBE("end_point_on_or_near_a_cell_border");}
      // consistency of the accessors with the cast
      // (the end indexes must be the last cell only when the end point is clear of every border)
      if (rc->computeRayNumberOfCells() != ray.size() || rc->getOriginPointIndexes() != ray.front() || (clear && rc->getEndPointIndexes() != ray.back())) {
        return Outcome::fail("accessors-disagree-with-cast", fmt("op #%zu (%s): computeRayNumberOfCells()=%zu, ray has %zu cells; origin indexes %s, end indexes %s",
                 no, how, rc->computeRayNumberOfCells(), ray.size(), rc->getOriginPointIndexes() != ray.front() ? "differ" : "agree",
                 rc->getEndPointIndexes() != ray.back() ? "differ" : "agree"));
      }
      if (rc->getEndPointIndexes() != ray.back()) {SIM_PROBE("ray_ends_in_a_neighbour_of_the_end_index_cell_border_case");}
      if (rc->getOriginPoint() != o || rc->getEndPoint() != e) {
        return Outcome::fail("accessors-disagree-with-cast", fmt("op #%zu (%s): getOriginPoint()/getEndPoint() are not the points of this cast", no, how));
      }
      // classification probes
      size_t zeroAxes = 0; for (size_t k = 0; k < DIM; ++k) {if (o[(long)k] == e[(long)k]) {++zeroAxes;}}
      if (zeroAxes == DIM) {SIM_PROBE("coincident_origin_and_end");} else if (zeroAxes > 0) {SIM_PROBE("axis_aligned_ray_zero_step_axis");}
      if (ray.size() == 1 && zeroAxes < DIM) {SIM_PROBE("origin_and_end_in_same_cell");}
      if (DIM >= 2 && std::fabs((long double)e[0] - o[0]) == std::fabs((long double)e[1] - o[1]) && zeroAxes == 0) {SIM_PROBE("exact_diagonal_ray");}
      if (ray.size() > 1000) {SIM_PROBE("ray_longer_than_1000_cells");}
      if (stateConsumed) {SIM_PROBE("cast_after_traversal_state_was_consumed");}
      return Outcome::pass();
    };

  for (const Op & op : p.ops) {
    ++no; ++c.steps;
    Pt o = pt(op.o), e = pt(op.e);
    const bool endJustSet = freshEnd; freshEnd = false;
    switch (op.kind) {
      case SET_ORIGIN: rc->setOriginPoint(o); curO = o; originSet = true; SIM_COUNT("op.setOriginPoint"); c.note(fmt("#%zu setOriginPoint", no)); break;
      case SET_END:
        if (!originSet) {rc->setOriginPoint(o); curO = o; originSet = true;}
        rc->setEndPoint(e); SIM_COUNT("op.setEndPoint"); c.note(fmt("#%zu setEndPoint", no)); stateConsumed = false; freshEnd = true; curE = e; break;
      case CAST0: {
          // a cast that does not name its end point: outside the history clause, executed to consume state; not compared
          if (!originSet) {rc->setOriginPoint(o); curO = o; originSet = true; rc->setEndPoint(e);}
          Ray r = rc->cast(); c.log(r.size());
          if (endJustSet) {
            // setOriginPoint / setEndPoint / cast(): the three-call form of a cast that names its end point
            SIM_PROBE("three_call_form_setOrigin_setEnd_cast");
            c.note(fmt("#%zu cast() right after setEndPoint -> %zu cells", no, r.size()));
            Outcome oc = checkRay(r, curO, curE, "setEndPoint, cast()"); if (!oc.ok) {return oc;}
          } else {
            SIM_COUNT("fault.state_consuming_cast_without_end_point.fired");
            c.note(fmt("#%zu cast() -> %zu cells (not compared)", no, r.size()));
          }
          stateConsumed = true; break;
        }
      case CAST1: {
          if (!originSet) {rc->setOriginPoint(o); curO = o; originSet = true;}
          Ray r = rc->cast(e); SIM_COUNT("op.cast_end");
          c.note(fmt("#%zu cast(end) -> %zu cells", no, r.size()));
          Outcome oc = checkRay(r, curO, e, kOpName[op.kind]); if (!oc.ok) {return oc;}
          stateConsumed = true; break;
        }
      case CAST2: {
          Ray r = rc->cast(o, e); curO = o; originSet = true; SIM_COUNT("op.cast_origin_end");
          c.note(fmt("#%zu cast(origin,end) -> %zu cells", no, r.size()));
          Outcome oc = checkRay(r, o, e, kOpName[op.kind]); if (!oc.ok) {return oc;}
          stateConsumed = true; break;
        }
      case TRAVERSE: {
          // the same traversal done by hand through next(): setEndPoint, then count-1 steps
          if (!originSet) {rc->setOriginPoint(o); curO = o; originSet = true;}
          rc->setEndPoint(e);
          size_t n = rc->computeRayNumberOfCells();
          if (n == 0 || n > 20000) {return Outcome::fail("wrong-cell-count", fmt("op #%zu: computeRayNumberOfCells()=%zu", no, n));}
          Ray r(n); CI cur = rc->getOriginPointIndexes(); r[0] = cur;
          for (size_t i = 1; i < n; ++i) {rc->next(cur); r[i] = cur;}
          SIM_COUNT("op.manual_traversal_with_next");
          c.note(fmt("#%zu setEndPoint + %zu x next()", no, n - 1));
          Outcome oc = checkRay(r, curO, e, kOpName[op.kind]); if (!oc.ok) {return oc;}
          stateConsumed = true; break;
        }
      case CAST_ALIAS: {
          // arguments that are references to the caster's own stored points (valid calls; the result depends on the
          // VALUES of origin and end at the time of the call)
          if (!originSet) {rc->setOriginPoint(o); curO = o; originSet = true;}
          rc->setEndPoint(e);
          Pt endVal = rc->getEndPoint(), orgVal = rc->getOriginPoint();
          Ray r; Pt useO = orgVal, useE = endVal;
          switch (op.count % 4) {
            case 0: r = rc->cast(o, rc->getEndPoint()); useO = o; break;                     // new origin, own end point
            case 1: r = rc->cast(rc->getOriginPoint(), e); useE = e; break;                 // own origin, new end
            case 2: r = rc->cast(rc->getEndPoint(), rc->getOriginPoint()); useO = endVal; useE = orgVal; break;   // swapped, both own
            default: r = rc->cast(rc->getEndPoint()); useE = endVal; break;                 // own end point again
          }
          curO = useO; SIM_PROBE("cast_with_references_to_the_casters_own_points");
          c.note(fmt("#%zu cast with own point references (form %d) -> %zu cells", no, op.count % 4, r.size()));
          Outcome oc = checkRay(r, useO, useE, kOpName[op.kind]); if (!oc.ok) {return oc;}
          stateConsumed = true; break;
        }
      case REASSIGN_GRID: {
          // the grid object the caster points at is given a new value in place (same address, other geometry)
          if (op.count % 2 == 1 && !p.rangeCtor) {
            // recentring: same resolution and (normally) the same cell counts, bounds moved by a whole number of cells;
            // both grid objects are recentred so that one extent keeps describing where points may lie
            S r1 = map->getCellResolution(), r2 = map2->getCellResolution();
            S shift = (S)((double)((int)(no % 5) - 2) * 4.0 + 1.0) * r1;
            for (size_t k = 0; k < DIM; ++k) {lo[(long)k] += shift; up[(long)k] += shift;}
            *map = Map(romea::core::Interval<S, DIM>(lo, up), r1); *map2 = Map(romea::core::Interval<S, DIM>(lo, up), r2);
            adoptGrid(); originSet = false; stateConsumed = true; SIM_PROBE("grid_objects_recentred_in_place_same_resolution");
            c.note(fmt("#%zu grid objects recentred in place (bounds shifted by %.9g)", no, (double)shift)); break;
          }
          onSecond = !onSecond;
          Map & target = *cur;
          target = onSecond ? Map(romea::core::Interval<S, DIM>(lo, up), (S)(p.res * 1.75 <= 1.0 ? p.res * 1.75 : p.res * 0.8)) : Map(romea::core::Interval<S, DIM>(lo, up), (S)p.res);
          adoptGrid(); originSet = false; stateConsumed = true; SIM_PROBE("grid_object_reassigned_in_place");
          c.note(fmt("#%zu grid object reassigned in place", no)); break;
        }
      case COPY_CASTER: {
          // the history continues on a copy of the caster (copy-constructed, copy-assigned over another caster, or
          // move-constructed): grid, origin and everything a later cast depends on come along
          std::unique_ptr<RC> cp;
          switch (no % 3) {
            case 0: cp.reset(new RC(*rc)); break;
            case 1: cp.reset(new RC(onSecond ? map.get() : map2.get())); *cp = *rc; break;
            default: cp.reset(new RC(std::move(*rc))); break;
          }
          rc = std::move(cp); SIM_PROBE("continue_on_a_copy_of_the_caster");
          c.note(fmt("#%zu continue on a copy of the caster", no)); break;
        }
      case SWITCH_GRID: {
          // the grid is part of what a cast depends on: after the switch everything must be as with a fresh caster on
          // the new grid (the origin has to be given again: its cell indexes belong to the old grid)
          onSecond = !onSecond; cur = onSecond ? map2.get() : map.get();
          rc->setGridIndexMapping(cur); adoptGrid();
          originSet = false; stateConsumed = true; SIM_PROBE("caster_switched_to_another_grid");
          c.note(fmt("#%zu setGridIndexMapping -> %s grid", no, onSecond ? "second" : "first")); break;
        }
      default: {
          // steps that consume or over-run the traversal state before the next cast
          if (!originSet) {rc->setOriginPoint(o); curO = o; originSet = true; rc->setEndPoint(e);}
          CI cur = rc->getOriginPointIndexes();
          for (int i = 0; i < op.count; ++i) {rc->next(cur);}
          for (size_t k = 0; k < DIM; ++k) {c.log(cur[(long)k]);}
          stateConsumed = true; SIM_COUNT("fault.state_consuming_next_burst.fired");
          c.note(fmt("#%zu %d x next() (over-run)", no, op.count)); break;
        }
    }
  }
  return Outcome::pass();
}

}  // namespace

struct PropC14
{
  using Plan = ::Plan;
  static constexpr const char * id = "C14";
  static constexpr const char * engine = "E1 seqsim";
  uint64_t master = 1; std::string tier; uint64_t nRandom = 0;
  std::vector<Plan> scriptedPlans;

  double hangSeconds() const {return 30;}
  double wallCapSeconds() const {return tier == "quick" ? 100 : 840;}
  void configure(const std::string & t, uint64_t seed)
  {
    tier = t; uint64_t x = seed; master = splitmix64(x) ^ hashStr(id);
    nRandom = tier == "quick" ? 1000000 : 40000000;
    scriptedPlans.clear();
    for (int fl = 0; fl < 2; ++fl) {
      for (int dim = 2; dim <= 3; ++dim) {
        Plan p; p.isFloat = fl; p.dim = dim; p.res = 0.1; for (int k = 0; k < 3; ++k) {p.lower[k] = -2; p.upper[k] = 2;}
        auto mk = [&](int kind, double ox, double oy, double ex, double ey, int count = 0) {
            Op o; o.kind = kind; o.o[0] = ox; o.o[1] = oy; o.o[2] = 0.33 * ox; o.e[0] = ex; o.e[1] = ey; o.e[2] = -0.2 * ey; o.count = count; return o;};
        p.ops = {mk(CAST2, 0.03, 0.04, 1.5, 0.7), mk(NEXT_BURST, 0, 0, 0, 0, 7), mk(CAST1, 0, 0, -1.5, 0.7), mk(CAST0, 0, 0, 0, 0),
          mk(CAST2, 1, 1, 1, -1), mk(TRAVERSE, 0, 0, 1.95, 1.95), mk(CAST2, -1, -1, 1, 1), mk(CAST2, 0.5, 0.5, 0.5, 0.5),
          mk(SET_ORIGIN, 0.25, 0.25, 0, 0), mk(NEXT_BURST, 0, 0, 0, 0, 50), mk(CAST1, 0, 0, 0.25, 1.25), mk(CAST2, -2, -2, 2, 2), mk(CAST2, 2, -2, -2, 2)};
        scriptedPlans.push_back(p);
      }
    }
  }
  uint64_t totalRuns() const {return scriptedPlans.size() + nRandom;}

  Plan randomPlan(uint64_t runseed) const
  {
    Rng r(runseed);
    Plan p; p.isFloat = r.chance(0.5); p.dim = r.chance(0.5) ? 2 : 3;
    p.res = r.chance(0.3) ? r.pick({0.01, 0.05, 0.1, 0.25, 0.5, 1.0}) : r.logUniform(0.01, 1.0);
    int sizeStyle = (int)r.below(4);   // 0 tiny, 1 small, 2 medium, 3 up to 2000 cells on an axis
    for (int k = 0; k < 3; ++k) {
      int cells = sizeStyle == 0 ? (int)r.range(1, 6) : sizeStyle == 1 ? (int)r.range(4, 40) : sizeStyle == 2 ? (int)r.range(20, 300) : (int)r.range(200, 1990);
      double centre0 = r.chance(0.5) ? 0 : r.uniform(-50, 50);
      p.lower[k] = centre0 - 0.5 * cells * p.res; p.upper[k] = centre0 + 0.5 * cells * p.res;
    }
    p.defaultCtor = r.chance(0.2);
    if (r.chance(0.15)) {p.rangeCtor = true; double range = std::max(p.upper[0] - p.lower[0], p.res) * 0.5; for (int k = 0; k < 3; ++k) {p.lower[k] = -range; p.upper[k] = range;}}
    auto point = [&](double * v, const double * other) {
        int cls = (int)r.below(11);
        for (int k = 0; k < p.dim; ++k) {
          double lo = p.lower[k], up = p.upper[k];
          double u = lo + (up - lo) * r.unit();
          double cellBase = std::floor(u / p.res) * p.res;
          switch (cls) {
            case 0: case 1: case 2: v[k] = u; break;                                  // generic
            case 3: v[k] = cellBase; break;                                           // on a lattice line of spacing res
            case 4: v[k] = cellBase + 0.5 * p.res; break;                             // half-way: cell border or centre
            case 5: v[k] = r.chance(0.5) ? lo : up; break;                            // extreme corner of the extent
            case 6: v[k] = (other && r.chance(0.7)) ? other[k] : u; break;            // shares coordinates with the other point
            case 7: v[k] = other ? other[k] + p.res * (double)r.range(-3, 3) : u; break;  // few cells away, lattice aligned
            case 8: v[k] = other ? other[k] + (k == 0 ? 1 : (r.chance(0.5) ? 1 : -1)) * p.res * 7.25 : u; break;  // exact diagonal
            case 9: v[k] = other ? other[k] + r.uniform(-1, 1) * p.res * 0.4 : u; break;   // same or neighbouring cell
            default:   // the neighbouring representable number (of the grid's scalar type), often across a cell border
              if (other) {double dir = r.chance(0.5) ? INFINITY : -INFINITY;
                v[k] = p.isFloat ? (double)std::nextafter((float)other[k], (float)dir) : std::nextafter(other[k], dir);} else {v[k] = cellBase + 0.5 * p.res;}
          }
          v[k] = std::min(up, std::max(lo, v[k]));
        }
      };
    int n = (int)r.range(1, 20);
    double pConsume = r.pick({0.0, 0.2, 0.5});
    if (pConsume > 0) {SIM_COUNT("fault.state_consuming_next_burst.configured"); SIM_COUNT("fault.state_consuming_cast_without_end_point.configured");}
    for (int k = 0; k < n; ++k) {
      Op op;
      point(op.o, nullptr); point(op.e, op.o);
      if (r.chance(pConsume)) {op.kind = r.chance(0.6) ? NEXT_BURST : CAST0; op.count = (int)r.range(1, r.chance(0.2) ? 3000 : 30);} else {
        static const int kinds[] = {SET_ORIGIN, SET_END, CAST1, CAST1, CAST2, CAST2, CAST2, TRAVERSE};
        op.kind = r.pick(kinds);
        if (r.chance(0.04)) {op.kind = SWITCH_GRID;}
        if (r.chance(0.04)) {op.kind = REASSIGN_GRID; op.count = (int)r.below(2);}
        if (r.chance(0.04)) {op.kind = COPY_CASTER;}
        if (r.chance(0.08)) {op.kind = CAST_ALIAS; op.count = (int)r.below(4);}
      }
      p.ops.push_back(op);
      if (op.kind == SET_END && r.chance(0.6)) {Op c0 = op; c0.kind = CAST0; p.ops.push_back(c0);}
    }
    return p;
  }
  // heap contents are an input of the run like any other: every fresh allocation is filled with a byte chosen by the plan
  Plan generate(uint64_t index) const {Plan p = generate0(index); p.junk = (int)(mix64(master ^ 0x6a756e6bULL, index) % 5); return p;}
  Outcome execute(const Plan & p, Ctx & c) const {sim::junkHeap(p.junk); return execute0(p, c);}
  Json toJson(const Plan & p) const {Json j = toJson0(p); j.set("heap_fill_index", p.junk); return j;}
  Plan fromJson(const Json & j) const {Plan p = fromJson0(j); if (j.has("heap_fill_index")) {p.junk = (int)j["heap_fill_index"].i();} return p;}
  std::vector<Plan> simpler(const Plan & p) const {std::vector<Plan> out = simpler0(p); if (p.junk != 0) {Plan q = p; q.junk = 0; out.push_back(q);} return out;}
  Plan generate0(uint64_t index) const
  {
    if (index < scriptedPlans.size()) {return scriptedPlans[index];}
    return randomPlan(mix64(master, index - scriptedPlans.size()));
  }
  Outcome execute0(const Plan & p, Ctx & c) const
  {
    if (p.isFloat) {return p.dim == 2 ? runCaster<float, 2>(p, c) : runCaster<float, 3>(p, c);}
    return p.dim == 2 ? runCaster<double, 2>(p, c) : runCaster<double, 3>(p, c);
  }

  Json toJson0(const Plan & p) const
  {
    Json j = Json::object();
    j.set("scalar", p.isFloat ? "float" : "double").set("is_float", p.isFloat).set("dim", p.dim).set("resolution", p.res);
    Json lo = Json::array(), up = Json::array(); for (int k = 0; k < p.dim; ++k) {lo.push(p.lower[k]); up.push(p.upper[k]);}
    j.set("lower", lo).set("upper", up).set("caster_default_ctor", p.defaultCtor).set("grid_from_maximal_range", p.rangeCtor);
    Json ops = Json::array();
    for (auto & o : p.ops) {
      Json e = Json::object(); e.set("op", kOpName[o.kind]).set("kind", o.kind);
      Json a = Json::array(), b = Json::array(); for (int k = 0; k < p.dim; ++k) {a.push(o.o[k]); b.push(o.e[k]);}
      e.set("origin", a).set("end", b); if (o.kind == NEXT_BURST || o.kind == CAST_ALIAS || o.kind == REASSIGN_GRID) {e.set("count", o.count);}
      ops.push(e);
    }
    j.set("ops", ops);
    return j;
  }
  Plan fromJson0(const Json & j) const
  {
    Plan p; p.isFloat = j["is_float"].b(); p.dim = (int)j["dim"].i(); p.res = j["resolution"].d();
    for (int k = 0; k < p.dim; ++k) {p.lower[k] = j["lower"][k].d(); p.upper[k] = j["upper"][k].d();}
    p.defaultCtor = j["caster_default_ctor"].b(); p.rangeCtor = j["grid_from_maximal_range"].b();
    for (auto & e : j["ops"].a()) {
      Op o; o.kind = (int)e["kind"].i(); for (int k = 0; k < p.dim; ++k) {o.o[k] = e["origin"][k].d(); o.e[k] = e["end"][k].d();}
      if (e.has("count")) {o.count = (int)e["count"].i();}
      p.ops.push_back(o);
    }
    return p;
  }
  std::vector<Plan> simpler0(const Plan & p) const
  {
    std::vector<Plan> out;
    removalCandidates(p.ops, [&](std::vector<Op> v) {Plan q = p; q.ops = std::move(v); out.push_back(q);});
    if (p.isFloat) {Plan q = p; q.isFloat = false; out.push_back(q);}
    if (p.defaultCtor) {Plan q = p; q.defaultCtor = false; out.push_back(q);}
    for (size_t k = 0; k < p.ops.size(); ++k) {
      const Op & o = p.ops[k];
      if (o.kind == NEXT_BURST && o.count > 1) {Plan q = p; q.ops[k].count = o.count / 2; out.push_back(q);}
      if (o.kind == TRAVERSE || o.kind == CAST1) {Plan q = p; q.ops[k].kind = CAST2; out.push_back(q);}
      // pull the end point towards the origin (shorter ray)
      bool differ = false; for (int a = 0; a < p.dim; ++a) {if (o.e[a] != o.o[a]) {differ = true;}}
      if (differ && o.kind != SET_ORIGIN && o.kind != NEXT_BURST && o.kind != CAST0) {
        Plan q = p; for (int a = 0; a < p.dim; ++a) {q.ops[k].e[a] = o.o[a] + (o.e[a] - o.o[a]) * 0.5;} out.push_back(q);
      }
    }
    return out;
  }
  uint64_t planSize(const Plan & p) const {return p.ops.size();}
  uint64_t shapeHash(const Plan & p) const
  {
    uint64_t h = mix64((uint64_t)p.isFloat * 4 + (uint64_t)p.dim, bitsOf(p.res));
    for (auto & o : p.ops) {
      uint64_t cls = (uint64_t)o.kind * 16;
      for (int a = 0; a < p.dim; ++a) {cls = cls * 3 + (o.e[a] > o.o[a] ? 2 : (o.e[a] < o.o[a] ? 0 : 1));}
      h = mix64(h, cls);
    }
    return h;
  }
  // non-trivial: a checked cast that comes after an op which consumed or over-ran the traversal state
  bool nontrivial(const Plan & p) const
  {
    bool consumed = false;
    for (auto & o : p.ops) {
      if ((o.kind == CAST1 || o.kind == CAST2 || o.kind == TRAVERSE || o.kind == CAST_ALIAS) && consumed) {return true;}
      if (o.kind >= CAST0) {consumed = true;}
    }
    return false;
  }
  std::string signature(const Plan & p, const Outcome & o) const
  {
    std::string s = o.cls + "|" + (p.isFloat ? "float" : "double") + std::to_string(p.dim) + "|";
    for (auto & op : p.ops) {s += "OE012TNGAR"[op.kind];}
    return s;
  }
  std::vector<uint64_t> sampleIndexes() const
  {
    uint64_t s = scriptedPlans.size(); std::vector<uint64_t> v = {0};
    for (uint64_t k = 0, n = 0; k < 4000 && n < 3; ++k) {Plan p = randomPlan(mix64(master, k)); if (p.ops.size() >= 3 && p.ops.size() <= 7 && nontrivial(p)) {v.push_back(s + k); ++n;}}
    return v;
  }
  std::vector<std::string> probeNames() const
  {
    return {"end_point_on_or_near_a_cell_border", "coincident_origin_and_end", "axis_aligned_ray_zero_step_axis", "origin_and_end_in_same_cell",
      "exact_diagonal_ray", "ray_longer_than_1000_cells", "cast_after_traversal_state_was_consumed",
      "ray_ends_in_a_neighbour_of_the_end_index_cell_border_case",
      "caster_default_constructed_then_given_the_grid", "grid_built_from_maximal_range", "three_call_form_setOrigin_setEnd_cast", "caster_switched_to_another_grid",
      "cast_with_references_to_the_casters_own_points", "grid_object_reassigned_in_place"};
  }
  Json describe() const
  {
    Json d = Json::object();
    d.set("rule",
      "A plan is (float|double, 2D|3D, resolution in [0.01,1], extent with 1..2000 cells per axis, list of <= 20 ops: setOriginPoint, "
      "setEndPoint, cast(), cast(end), cast(origin,end), manual traversal via next(), bursts of next() that consume or over-run the "
      "traversal state, switching the caster to a second grid, re-assigning or recentring the grid objects in place, casts through the caster's own "
      "point references, continuing on a copy of the caster). Points are drawn inside the extent from classes: generic, on lattice lines, half-way (borders/centres), extreme "
      "corners, sharing coordinates with the other point (axis-aligned, coincident), lattice-aligned neighbours, exact diagonals, same or "
      "neighbouring cell. distinct = distinct hash of (type, dim, resolution, per op: kind and sign pattern of the direction); "
      "non-trivial = a checked cast after an op that consumed the traversal state.");
    Json or_ = Json::array();
    or_.push("history clause (decided): every cast that names its end point (cast(end), cast(origin,end), setEndPoint + next()*) equals, cell for cell, the result of a freshly constructed caster on the same grid");
    or_.push("input clauses (per cast, no tolerance): indexes inside the grid, face adjacency, count = L1 distance + 1, accessors agree with the cast");
    or_.push("input clauses (per cast, tolerance tau = (cells+2)*eps_S*(length + max |coordinate|)): first cell contains the origin, every cell's closed box meets the segment, last cell's closed box contains the end point, and is exactly the end point's cell when that is clear of every border");
    d.set("oracles", or_);
    Json comp = Json::object();
    comp.set("real_code", "RayTracing.cpp, GridIndexMapping.cpp for float/double x 2D/3D (g++ -O3, asserts on)");
    comp.set("stubs", "none; the fresh twin is the library's own code, geometry is evaluated in long double from the grid's own cell centres");
    comp.set("scheduler", "not used (single owner)"); comp.set("clock", "not used");
    comp.set("faults", "restart-like events: traversal state consumed or over-run by next() bursts and by cast() without end point before the next cast");
    d.set("components", comp);
    d.set("exhaustive", false);
    Json as = Json::array();
    as.push("cast() without an end point is outside the history clause and is executed only to consume state");
    as.push("origin and end are inside the extent (clamped after conversion to the grid's scalar type)");
    as.push("tau is below 1e-9 cell for double grids and grows to a fraction of a cell only for the largest float grids; structural clauses carry no tolerance");
    d.set("assumptions", as);
    return d;
  }
};

int main(int argc, char ** argv) {return simMain<PropC14>(argc, argv);}
