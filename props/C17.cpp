// C17 - rate monitoring and rate check-ups follow the stamped-event history.
// Engine E2: a discrete-event world (sensor, channel, watchdog with its own
// skewed / jumping clock) on a simulated nanosecond clock produces an explicit
// event list; the list is fed to the real RateMonitoring and CheckupRate and,
// event by event, to the model written from the statement.
#include <queue>
#include <memory>
#include "../sim/core/runner.hpp"
#include "../models/rate.hpp"
#include "../models/checkup.hpp"
#include "romea_core_common/monitoring/RateMonitoring.hpp"
#include "romea_core_common/diagnostic/CheckupRate.hpp"

using namespace sim;
namespace rc = romea::core;

namespace {

enum Tag : int {T_STEADY = 0, T_JITTER, T_BURST, T_SILENCE, T_STALL, T_DROP, T_DELAY,   // data
  H_NORMAL, H_WDSTALL, H_SKEW, H_JUMP, H_BOUNDARY, T_COUNT};
const char * kTagName[] = {"steady", "jitter", "burst", "silence", "sensor_stall", "drop", "delay",
  "heartbeat", "watchdog_stall", "clock_skew", "clock_jump", "boundary_heartbeat"};

struct Ev
{
  int kind;      // 0 = data stamp (v = period since the previous data stamp, >= 1 ns)
                 // 1 = heartbeat (v = offset of its stamp from the last data stamp fed so far)
                 // 2 = the stand-alone monitor continues as a copy-constructed object
  int64_t v;
  int tag;
};

struct Plan
{
  int junk = 0;   // index of the byte every fresh heap allocation is filled with (sim::junkHeap)
  int checkKind = 0;          // 0 = equal-to, 1 = greater-than
  double rate = 10, eps = 1;  // expected rate and tolerance (dyadic, so rate +- eps is exact)
  int64_t t0 = 0;             // origin of the sensor clock: first stamp = t0 + first period
  std::string name = "imu";
  bool viaInitialize = false;   // stand-alone monitor: RateMonitoring() + initialize(rate) instead of RateMonitoring(rate)
  std::vector<Ev> ev;
};

void countTag(int tag)
{
  static Slot * slot = nullptr; static uint64_t * ctr[T_COUNT];
  if (slot != gSlot || !gSlot) {
    if (!gSlot) {gSlot = privateSlot();}
    for (int k = 0; k < T_COUNT; ++k) {
      ctr[k] = &counter(k == T_STEADY ? "fault.none_steady.fired" : (std::string("fault.") + kTagName[k] + ".fired").c_str());
    }
    slot = gSlot;
  }
  ++*ctr[tag];
}

std::string rep3(int status, const std::string & m, const std::string & v)
{
  return std::string("(") + model::statusName(status) + ", \"" + m + "\", \"" + v + "\")";
}

template<class CR>
Outcome runWorld(const Plan & p, Ctx & c)
{
  CR cr(p.name, p.rate, p.eps);
  std::unique_ptr<rc::RateMonitoring> rmPtr(p.viaInitialize ? new rc::RateMonitoring : new rc::RateMonitoring(p.rate));
  if (p.viaInitialize) {rmPtr->initialize(p.rate); SIM_PROBE("monitor_configured_through_initialize");}
#define rm (*rmPtr)
  model::RateModel m(p.rate);
  const int kind = p.checkKind == 0 ? model::EqualTo : model::GreaterThan;
  const std::string key = p.name + "_rate";
  const int W = m.W;

  // bystanders: another monitor and another check-up fed a steady 10 Hz; nothing done to the subjects may disturb them
  rc::RateMonitoring byMon(2.0); rc::CheckupEqualToRate byChk("by", 10.0, 0.0); int64_t byStamp = 0; uint64_t byN = 0;
  auto checkBystander = [&]() -> Outcome {
      ++byN; byStamp += 100000000LL;
      double r = byMon.update(rc::Duration(byStamp)); int st = (int)byChk.evaluate(rc::Duration(byStamp));
      double wantR = byN >= 5 ? 10.0 : 0.0;
      // (the check-up's own monitor has expected rate 10 Hz, hence a window of 20 periods: OK from the 21st stamp on)
      if (r != wantR || byMon.getRate() != wantR || st != (byN >= 21 ? model::OK : model::ERROR)) {
        return Outcome::fail("bystander-monitor-changed", fmt("another RateMonitoring/CheckupRate pair fed a steady 10 Hz reports rate %.17g status %s after %llu stamps",
                 r, model::statusName(st), (unsigned long long)byN));
      }
      return Outcome::pass();
    };
  model::ReportModel want;  // report of the check-up according to the statement
  want.status = model::ERROR; want.message = "no data received from " + p.name; want.value = "";

  int64_t cur = p.t0, firstTime = 0, lastTime = 0; bool anyTime = false;
  bool staleNow = false;
  int conforming = 0;     // consecutive data periods that are within tolerance (bounded liveness)
  size_t no = 0;

  auto readReport = [&](model::ReportModel & got, std::string & why) -> bool {
      rc::DiagnosticReport r = cr.getReport();
      if (r.diagnostics.size() != 1 || r.info.size() != 1) {
        why = fmt("report has %zu diagnostics and %zu info entries, expected 1 and 1", r.diagnostics.size(),
            r.info.size());
        return false;
      }
      if (r.info.begin()->first != key) {why = "info key is '" + r.info.begin()->first + "', expected '" + key + "'"; return false;}
      got.status = (int)r.diagnostics.front().status; got.message = r.diagnostics.front().message;
      got.value = r.info.begin()->second;
      c.log((uint64_t)got.status); c.logs(got.message); c.logs(got.value);
      return true;
    };
  auto periodConforms = [&](int64_t dt) -> bool {
      // a run of W such periods guarantees a rate strictly inside the OK region
      long double r = 1e9L / (long double)dt;
      long double margin = 1e-9L * p.rate;
      if (kind == model::EqualTo) {return r >= p.rate - p.eps + margin && r <= p.rate + p.eps - margin && p.eps > 0;}
      return r > p.rate - p.eps + margin;
    };

  {
    model::ReportModel got; std::string why;
    if (!readReport(got, why)) {return Outcome::fail("report-shape", "initially: " + why);}
    if (!(got == want)) {
      return Outcome::fail("report-mismatch", "before the first stamp the report is " +
               rep3(got.status, got.message, got.value) + ", expected " + rep3(want.status, want.message, want.value));
    }
    if (rm.getRate() != 0) {return Outcome::fail("rate-mismatch", "rate before any stamp is " + dstr(rm.getRate()));}
  }

  for (const Ev & e : p.ev) {
    ++no; ++c.steps;
    if ((no & 3) == 0) {Outcome ob = checkBystander(); if (!ob.ok) {return ob;}}
    if (e.kind == 2) {
      // the copy constructor must carry window, last stamp and rate over
      SIM_COUNT("op.monitor_copy_constructed");
      if (m.seen > 0 && !m.windowFull()) {SIM_PROBE("copy_with_partly_filled_window");}
      rmPtr.reset(new rc::RateMonitoring(*rmPtr));
      if (!(std::fabs(rm.getRate() - m.rate) <= 1e-12 * std::fabs(m.rate))) {
        return Outcome::fail("rate-mismatch", fmt("event #%zu: a copy of the monitor reports rate %.17g, the original had %.17g", no, rm.getRate(), m.rate));
      }
      c.note(fmt("#%zu monitor continues as a copy", no));
      continue;
    }
    countTag(e.tag);
    if (e.kind == 0) {
      int64_t dt = e.v < 1 ? 1 : e.v;
      cur += dt;
      if (!anyTime) {firstTime = cur; anyTime = true;}
      lastTime = std::max(lastTime, cur);
      bool wasStale = staleNow; staleNow = false;
      if (m.seen == 0 && cur <= 0) {SIM_PROBE("first_stamp_zero_or_negative");}
      if (m.seen == 0 && cur == 0) {SIM_PROBE("first_stamp_exactly_zero");}
      if (m.seen == 0 && cur > 1000000000000000000LL) {SIM_PROBE("first_stamp_huge");}
      double rModel = m.update(cur);
      double rAlone = rm.update(rc::Duration(cur));
      c.logd(rAlone);
      c.note(fmt("#%zu data stamp %lld ns (period %lld) -> rate %.17g (model %.17g)", no, (long long)cur,
        (long long)dt, rAlone, rModel));
      if (!(std::fabs(rAlone - rModel) <= 1e-12 * std::fabs(rModel)) || rm.getRate() != rAlone) {
        return Outcome::fail("rate-mismatch", fmt("event #%zu (stamp %lld): update() returned %.17g, getRate() "
                 "%.17g, the statement gives %.17g (W=%d, %llu stamps seen)", no, (long long)cur, rAlone,
                 rm.getRate(), rModel, W, (unsigned long long)m.seen));
      }
      if (m.seen == (uint64_t)W) {SIM_PROBE("window_one_stamp_short_of_full");}
      if (m.seen == (uint64_t)W + 1) {SIM_PROBE("window_just_full");}
      if (m.seen > (uint64_t)2 * W + 2 && e.tag != T_STEADY) {SIM_PROBE("window_rollover_with_irregular_periods");}
      if (wasStale && rModel > 0) {SIM_PROBE("recovery_after_timeout_with_full_window");}
      if (wasStale && rModel == 0) {SIM_PROBE("stamp_after_timeout_with_partly_filled_window");}

      int status = (int)cr.evaluate(rc::Duration(cur));
      model::ReportModel got; std::string why;
      if (!readReport(got, why)) {return Outcome::fail("report-shape", fmt("event #%zu: ", no) + why);}
      bool match = false; model::Verdict vm = model::classify(kind, rModel, p.rate, p.eps);
      for (double r : {rAlone, rModel}) {
        model::Verdict vd = model::classify(kind, r, p.rate, p.eps);
        model::Verdict vr = model::classifyRounded(kind, r, p.rate, p.eps);
        for (const model::Verdict & v : {vd, vr}) {
          if (got.status == v.status && got.message == key + v.suffix && got.value == model::printValue(r)) {match = true;}
        }
      }
      if (status != got.status) {
        return Outcome::fail("returned-status-differs-from-report", fmt("event #%zu (stamp %lld): evaluate() "
                 "returned %s but the report says %s", no, (long long)cur, model::statusName(status),
                 model::statusName(got.status)));
      }
      if (!match) {
        return Outcome::fail("report-mismatch", fmt("event #%zu (stamp %lld, rate %.17g, expected rate %g +- %g, "
                 "%s): report is ", no, (long long)cur, rModel, p.rate, p.eps, model::kindName(kind)) +
                 rep3(got.status, got.message, got.value) + ", expected " +
                 rep3(vm.status, key + vm.suffix, model::printValue(rModel)));
      }
      want = got;
      if (vm.status == model::OK) {SIM_PROBE("status_ok");} else if (std::string(vm.suffix) == " is too low.") {
        SIM_PROBE("status_too_low");
      } else {SIM_PROBE("status_too_high");}
      if (p.eps == 0 && rModel == p.rate) {SIM_PROBE("rate_exactly_on_target_with_zero_tolerance");}
      // bounded liveness: W+1 stamps after the faults stopped the report must be OK
      conforming = periodConforms(dt) ? conforming + 1 : 0;
      if (conforming >= W && m.windowFull()) {
        SIM_PROBE("liveness_checked_after_faults_stopped");
        if (got.status != model::OK) {
          return Outcome::fail("liveness-not-ok", fmt("event #%zu: the last %d periods are all within tolerance "
                   "but the report is %s", no, conforming, rep3(got.status, got.message, got.value).c_str()));
        }
      }
    } else {
      int64_t stamp = cur + e.v;
      lastTime = std::max(lastTime, stamp);
      if (m.seen == 0) {SIM_PROBE("heartbeat_before_any_data");}
      if (m.seen > 0 && e.v == 500000000LL) {SIM_PROBE("heartbeat_exactly_0.5s_after_last_stamp");}
      if (m.seen > 0 && e.v == 500000001LL) {SIM_PROBE("heartbeat_0.5s_plus_1ns_after_last_stamp");}
      if (m.seen > 0 && e.v < 0) {SIM_PROBE("heartbeat_stamp_before_last_data_stamp");}
      bool partly = m.seen > 0 && !m.windowFull();
      bool toModel = m.timeout(stamp);
      if (toModel && partly) {SIM_PROBE("timeout_with_partly_filled_window");}
      if (toModel && staleNow) {SIM_PROBE("repeated_timeout");}
      if (toModel) {SIM_COUNT("probe.timeouts");}
      bool toAlone = rm.timeout(rc::Duration(stamp));
      double rateAfter = rm.getRate();
      c.log(toAlone); c.logd(rateAfter);
      c.note(fmt("#%zu heartbeat stamp %lld ns (last data %+lld ns) -> timeout=%d (model %d)", no, (long long)stamp,
        (long long)-e.v, toAlone, toModel));
      if (toAlone != toModel || !(std::fabs(rateAfter - m.rate) <= 1e-12 * std::fabs(m.rate))) {
        return Outcome::fail("timeout-mismatch", fmt("event #%zu: heartbeat %lld ns after the last stamp: "
                 "timeout()=%d rate afterwards %.17g, the statement gives timeout=%d rate %.17g", no,
                 (long long)e.v, toAlone, rateAfter, toModel, m.rate));
      }
      bool alive = cr.heartBeatCallback(rc::Duration(stamp));
      c.log(alive);
      if (alive == toModel) {
        return Outcome::fail("heartbeat-result-mismatch", fmt("event #%zu: heartBeatCallback returned %d for a "
                 "heartbeat %lld ns after the last stamp (timeout expected: %d)", no, alive, (long long)e.v, toModel));
      }
      if (toModel) {
        want.status = model::STALE; want.message = key + " timeout."; want.value = ""; staleNow = true;
        conforming = 0;
      }
      model::ReportModel got; std::string why;
      if (!readReport(got, why)) {return Outcome::fail("report-shape", fmt("event #%zu: ", no) + why);}
      if (!(got == want)) {
        return Outcome::fail("report-mismatch", fmt("event #%zu (heartbeat %lld ns after the last stamp, timeout=%d): "
                 "report is ", no, (long long)e.v, toModel) + rep3(got.status, got.message, got.value) +
                 ", expected " + rep3(want.status, want.message, want.value));
      }
    }
  }
  if (anyTime) {c.simSeconds += (double)(lastTime - firstTime) * 1e-9;}
  return Outcome::pass();
#undef rm
}

// ---------------------------------------------------------------- the generating world
struct WorldCfg
{
  double actualFactor;     // sensor rate / expected rate
  double pJitter, pBurst, pSilence, pStall, pDrop, pDelay;
  double wdPeriod;         // seconds
  double pWdStall; double skew; double pJump;
  int nData;
  double pBoundary;
};

struct QEv {int64_t t; uint64_t seq; int type; int64_t stamp; int tag;};
struct QCmp {bool operator()(const QEv & a, const QEv & b) const {return a.t != b.t ? a.t > b.t : a.seq > b.seq;}};

}  // namespace

struct PropC17
{
  using Plan = ::Plan;
  static constexpr const char * id = "C17";
  static constexpr const char * engine = "E2 timesim";

  uint64_t master = 1; std::string tier; uint64_t nRandom = 0;
  std::vector<Plan> scriptedPlans;

  double hangSeconds() const {return 30;}
  double wallCapSeconds() const {return tier == "quick" ? 100 : 840;}

  void configure(const std::string & t, uint64_t seed)
  {
    tier = t; uint64_t x = seed; master = splitmix64(x) ^ hashStr(id);
    buildScripted();
    nRandom = tier == "quick" ? 120000 : 6000000;
  }
  uint64_t totalRuns() const {return scriptedPlans.size() + nRandom;}

  static Ev D(int64_t dt, int tag = T_STEADY) {return Ev {0, dt, tag};}
  static Ev H(int64_t off, int tag = H_NORMAL) {return Ev {1, off, tag};}

  void buildScripted()
  {
    scriptedPlans.clear();
    {  // 10 Hz exact, zero tolerance, boundary heartbeats, timeout, recovery
      Plan p; p.checkKind = 0; p.rate = 10; p.eps = 0; p.t0 = 0; p.name = "imu";
      p.ev.push_back(H(123456789));
      for (int k = 0; k < 25; ++k) {p.ev.push_back(D(100000000));}
      p.ev.push_back(H(499999999)); p.ev.push_back(H(500000000, H_BOUNDARY)); p.ev.push_back(H(500000001, H_BOUNDARY));
      p.ev.push_back(H(900000000));
      for (int k = 0; k < 22; ++k) {p.ev.push_back(D(100000000));}
      scriptedPlans.push_back(p);
    }
    {  // timeout while the window is partly filled, then a stamp; negative first stamp
      Plan p; p.checkKind = 1; p.rate = 2; p.eps = 0.25; p.t0 = -3000000000LL; p.name = "gps";
      p.ev = {D(1000000000), D(400000000), H(-5), H(500000001, H_BOUNDARY), D(700000000), D(1), D(1000, T_BURST),
        D(400000000), D(400000000), D(400000000), D(400000000), D(400000000)};
      scriptedPlans.push_back(p);
    }
    {  // huge first stamp, 200 Hz (W = 64), irregular periods
      Plan p; p.checkKind = 0; p.rate = 200; p.eps = 16; p.t0 = 1700000000000000000LL; p.name = "lidar";
      for (int k = 0; k < 200; ++k) {p.ev.push_back(D(4000000 + (k % 7) * 300000, T_JITTER));}
      p.ev.push_back(H(600000000)); p.ev.push_back(H(700000000));
      for (int k = 0; k < 70; ++k) {p.ev.push_back(D(5000000));}
      scriptedPlans.push_back(p);
    }
  }

  static double dyadicRate(Rng & r)
  {
    double x = r.logUniform(0.5, 200.0);
    double q = r.chance(0.3) ? 1.0 : (r.chance(0.5) ? 1.0 / 16 : 1.0 / 1024);
    double v = std::floor(x / q) * q;
    if (r.chance(0.25)) {static const double nice[] = {0.5, 1, 2, 2.5, 4, 5, 8, 10, 16, 20, 25, 32, 40, 50, 100, 125, 200}; v = r.pick(nice);}
    return std::min(200.0, std::max(0.5, v));
  }

  Plan randomPlan(uint64_t runseed) const
  {
    Rng r(runseed);
    Plan p;
    p.checkKind = (int)r.below(2);
    p.rate = dyadicRate(r);
    switch (r.below(4)) {
      case 0: p.eps = 0; break;
      case 1: p.eps = 1.0 / 1048576; break;
      case 2: p.eps = std::max(1.0 / 1024, std::floor(p.rate * 0.1 * 1024) / 1024); break;
      default: p.eps = 1024; break;
    }
    static const char * names[] = {"imu", "gps", "lidar", "odo", "joy"};
    p.name = r.pick(names);
    p.viaInitialize = r.chance(0.25);
    const bool zeroFirst = r.chance(0.08);
    const double pCopy = r.pick({0.0, 0.0, 0.01, 0.05});
    switch (r.below(8)) {
      case 0: p.t0 = -(int64_t)r.below(5000000000ULL); break;
      case 1: p.t0 = 1700000000000000000LL + (int64_t)r.below(1000000000ULL); break;
      case 2: p.t0 = (int64_t)r.below(1000000000000ULL); break;
      default: p.t0 = 0;
    }
    WorldCfg w;
    static const double factors[] = {1, 1, 1, 0.5, 0.9, 1.1, 2, 0.97};
    w.actualFactor = r.chance(0.2) ? r.uniform(0.3, 3) : r.pick(factors);
    auto sw = [&](double pOn, double lo, double hi) {return r.chance(pOn) ? r.uniform(lo, hi) : 0.0;};
    w.pJitter = sw(0.5, 0.05, 1); w.pBurst = sw(0.4, 0.01, 0.1); w.pSilence = sw(0.5, 0.005, 0.05);
    w.pStall = sw(0.3, 0.003, 0.02); w.pDrop = sw(0.4, 0.01, 0.3); w.pDelay = sw(0.3, 0.05, 0.5);
    w.wdPeriod = r.logUniform(0.05, 2.0);
    w.pWdStall = sw(0.3, 0.01, 0.1); w.skew = r.chance(0.3) ? r.uniform(-1, 1) : 0; w.pJump = sw(0.2, 0.005, 0.03);
    w.nData = (int)(r.chance(0.15) ? r.range(0, 12) : r.range(5, 500));
    w.pBoundary = sw(0.5, 0.01, 0.1);
    if (w.pJitter > 0) {SIM_COUNT("fault.jitter.configured");}
    if (w.pBurst > 0) {SIM_COUNT("fault.burst.configured");}
    if (w.pSilence > 0) {SIM_COUNT("fault.silence.configured");}
    if (w.pStall > 0) {SIM_COUNT("fault.sensor_stall.configured");}
    if (w.pDrop > 0) {SIM_COUNT("fault.drop.configured");}
    if (w.pDelay > 0) {SIM_COUNT("fault.delay.configured");}
    if (w.pWdStall > 0) {SIM_COUNT("fault.watchdog_stall.configured");}
    if (w.skew != 0) {SIM_COUNT("fault.clock_skew.configured");}
    if (w.pJump > 0) {SIM_COUNT("fault.clock_jump.configured");}
    if (w.pBoundary > 0) {SIM_COUNT("fault.boundary_heartbeat.configured");}
    SIM_COUNT("fault.heartbeat.configured"); SIM_COUNT("fault.none_steady.configured");

    // ---- the discrete-event world: sensor -> channel -> monitor, watchdog -> monitor
    const double actual = std::min(1e6, std::max(0.1, p.rate * w.actualFactor));
    const int64_t period = std::max<int64_t>(1000, (int64_t)std::llround(1e9 / actual));
    std::priority_queue<QEv, std::vector<QEv>, QCmp> q; uint64_t seq = 0;
    auto push = [&](int64_t t, int type, int64_t stamp, int tag) {q.push(QEv {t, (seq++ << 8) | r.below(256), type, stamp, tag});};
    enum {EMIT = 0, ARRIVE = 1, WATCHDOG = 2};
    push((int64_t)r.below((uint64_t)period) + 1, EMIT, 0, T_STEADY);
    push((int64_t)(r.unit() * w.wdPeriod * 1e9), WATCHDOG, 0, H_NORMAL);
    int emitted = 0, burstLeft = 0; int64_t lastArrival = 0, jumpAccum = 0, lastStampFed = 0; bool anyFed = false;
    int64_t wdStallUntil = -1; int pendingTag = T_STEADY;
    struct Rec {int kind; int64_t stamp; int tag;};
    std::vector<Rec> recs;
    int guard = 0;
    while (!q.empty() && ++guard < 20000) {
      QEv e = q.top(); q.pop();
      if (e.type == EMIT) {
        if (emitted >= w.nData) {continue;}
        ++emitted;
        int tag = pendingTag; pendingTag = T_STEADY;
        int64_t stamp = p.t0 + e.t;
        if (r.chance(w.pDrop)) {pendingTag = T_DROP;} else {
          int64_t arrive = e.t;
          if (r.chance(w.pDelay)) {arrive += (int64_t)r.below(300000000ULL); if (tag == T_STEADY) {tag = T_DELAY;}}
          arrive = std::max(arrive, lastArrival + 1); lastArrival = arrive;   // FIFO channel: stamps stay increasing
          push(arrive, ARRIVE, stamp, tag);
        }
        int64_t next;
        if (burstLeft > 0) {--burstLeft; next = (int64_t)r.logUniform(1000, 1000000); pendingTag = T_BURST;} else if (r.chance(w.pBurst)) {
          burstLeft = (int)r.range(1, 12); next = (int64_t)r.logUniform(1000, 1000000); pendingTag = T_BURST;
        } else if (r.chance(w.pSilence)) {next = (int64_t)r.uniform(0.2e9, 10e9); pendingTag = T_SILENCE;} else if (r.chance(w.pStall)) {
          next = (int64_t)r.uniform(0.6e9, 3e9); pendingTag = T_STALL;
        } else if (r.chance(w.pJitter)) {
          next = std::max<int64_t>(1000, (int64_t)(period * (1 + r.uniform(-0.5, 0.5)))); if (pendingTag == T_STEADY) {pendingTag = T_JITTER;}
        } else {next = period;}
        next = std::min<int64_t>(std::max<int64_t>(next, 1000), 10000000000LL);
        push(e.t + next, EMIT, 0, 0);
      } else if (e.type == ARRIVE) {
        recs.push_back(Rec {0, e.stamp, e.tag}); lastStampFed = e.stamp; anyFed = true;
        if (r.chance(w.pBoundary)) {   // a heartbeat placed on the 0.5 s boundary of the stamp just fed
          static const int64_t offs[] = {500000000LL, 500000001LL, 499999999LL};
          recs.push_back(Rec {1, lastStampFed + r.pick(offs), H_BOUNDARY});
        }
      } else {
        if (emitted >= w.nData && q.size() <= 1 && recs.size() > 0 && r.chance(0.5)) {continue;}
        int tag = H_NORMAL;
        if (e.t < wdStallUntil) {push(e.t + (int64_t)(w.wdPeriod * 1e9), WATCHDOG, 0, 0); continue;}
        if (wdStallUntil >= 0) {tag = H_WDSTALL; wdStallUntil = -1;}
        if (r.chance(w.pWdStall)) {wdStallUntil = e.t + (int64_t)r.uniform(0.5e9, 5e9);}
        if (r.chance(w.pJump)) {jumpAccum += (int64_t)r.uniform(0.1e9, 30e9); tag = H_JUMP;}
        if (w.skew != 0 && tag == H_NORMAL) {tag = H_SKEW;}
        recs.push_back(Rec {1, p.t0 + e.t + (int64_t)(w.skew * 1e9) + jumpAccum, tag});
        if (emitted < w.nData || !q.empty()) {push(e.t + (int64_t)(w.wdPeriod * 1e9), WATCHDOG, 0, 0);}
        if (emitted >= w.nData && r.chance(0.3)) {break;}
      }
      if (recs.size() >= 1000) {break;}
    }
    (void)anyFed;
    // ---- encode relative to the last data stamp so that dropping events keeps the plan legal
    int64_t cur = p.t0;
    for (auto & rc_ : recs) {
      if (r.chance(pCopy)) {p.ev.push_back(Ev {2, 0, T_STEADY});}
      if (rc_.kind == 0) {p.ev.push_back(D(std::max<int64_t>(1, rc_.stamp - cur), rc_.tag)); cur = std::max(cur + 1, rc_.stamp);} else {
        p.ev.push_back(H(rc_.stamp - cur, rc_.tag));
      }
    }
    // a first stamp of exactly 0 ns (the clock origin): make the clock origin the negative of the first period
    if (zeroFirst) {for (auto & e : p.ev) {if (e.kind == 0) {p.t0 = -e.v; break;}}}
    return p;
  }

  // heap contents are an input of the run like any other: every fresh allocation is filled with a byte chosen by the plan
  Plan generate(uint64_t index) const {Plan p = generate0(index); p.junk = (int)(mix64(master ^ 0x6a756e6bULL, index) % 5); return p;}
  Outcome execute(const Plan & p, Ctx & c) const {sim::junkHeap(p.junk); return execute0(p, c);}
  Json toJson(const Plan & p) const {Json j = toJson0(p); j.set("heap_fill_index", p.junk); return j;}
  Plan fromJson(const Json & j) const {Plan p = fromJson0(j); if (j.has("heap_fill_index")) {p.junk = (int)j["heap_fill_index"].i();} return p;}
  std::vector<Plan> simpler(const Plan & p) const {std::vector<Plan> out = simpler0(p); if (p.junk != 0) {Plan q = p; q.junk = 0; out.push_back(q);} return out;}
  Plan generate0(uint64_t index) const
  {
    if (index < scriptedPlans.size()) {return scriptedPlans[index];}
    return randomPlan(mix64(master, index - scriptedPlans.size()));
  }

  Outcome execute0(const Plan & p, Ctx & c) const
  {
    return p.checkKind == 0 ? runWorld<rc::CheckupEqualToRate>(p, c) : runWorld<rc::CheckupGreaterThanRate>(p, c);
  }

  Json toJson0(const Plan & p) const
  {
    Json j = Json::object();
    j.set("checkup", p.checkKind == 0 ? "CheckupEqualToRate" : "CheckupGreaterThanRate").set("check_kind", p.checkKind)
    .set("expected_rate", p.rate).set("tolerance", p.eps).set("t0_ns", (long long)p.t0).set("name", p.name).set("monitor_via_initialize", p.viaInitialize);
    Json ev = Json::array();
    for (auto & e : p.ev) {
      Json o = Json::object();
      if (e.kind == 0) {o.set("ev", "data").set("period_ns", (long long)e.v);} else if (e.kind == 2) {o.set("ev", "monitor_copy");} else {o.set("ev", "heartbeat").set("after_last_stamp_ns", (long long)e.v);}
      o.set("cause", kTagName[e.tag]).set("tag", e.tag);
      ev.push(o);
    }
    j.set("events", ev);
    return j;
  }
  Plan fromJson0(const Json & j) const
  {
    Plan p; p.checkKind = (int)j["check_kind"].i(); p.rate = j["expected_rate"].d(); p.eps = j["tolerance"].d();
    p.t0 = j["t0_ns"].i(); p.name = j["name"].s(); p.viaInitialize = j["monitor_via_initialize"].b();
    for (auto & o : j["events"].a()) {
      if (o["ev"].s() == "monitor_copy") {p.ev.push_back(Ev {2, 0, T_STEADY}); continue;}
      if (o["ev"].s() == "data") {p.ev.push_back(D(o["period_ns"].i(), (int)o["tag"].i()));} else {
        p.ev.push_back(H(o["after_last_stamp_ns"].i(), (int)o["tag"].i()));
      }
    }
    return p;
  }

  std::vector<Plan> simpler0(const Plan & p) const
  {
    std::vector<Plan> out;
    removalCandidates(p.ev, [&](std::vector<Ev> v) {Plan q = p; q.ev = std::move(v); out.push_back(q);});
    if (p.t0 != 0) {Plan q = p; q.t0 = 0; out.push_back(q);}
    if (p.rate != 2) {Plan q = p; q.rate = 2; q.eps = std::min(p.eps, 1.0); out.push_back(q);}
    if (p.eps != 0) {Plan q = p; q.eps = 0; out.push_back(q);}
    if (p.name != "x") {Plan q = p; q.name = "x"; out.push_back(q);}
    if (p.viaInitialize) {Plan q = p; q.viaInitialize = false; out.push_back(q);}
    for (size_t k = 0; k < p.ev.size(); ++k) {
      const Ev & e = p.ev[k];
      if (e.kind == 2) {continue;}
      // strictly monotone: only values that come earlier in the list than the current one
      static const int64_t simpleD[] = {100000000LL, 1000000000LL, 1};
      static const int64_t simpleH[] = {100000000LL, 1000000000LL, 500000001LL, 500000000LL, 499999999LL, -1};
      const int64_t * simple = e.kind == 0 ? simpleD : simpleH; int n = e.kind == 0 ? 3 : 6;
      int pos = n; for (int i = 0; i < n; ++i) {if (simple[i] == e.v) {pos = i;}}
      for (int i = 0; i < pos; ++i) {Plan q = p; q.ev[k].v = simple[i]; out.push_back(q);}
      if (e.tag != (e.kind == 0 ? T_STEADY : H_NORMAL)) {Plan q = p; q.ev[k].tag = e.kind == 0 ? T_STEADY : H_NORMAL; out.push_back(q);}
    }
    return out;
  }

  uint64_t planSize(const Plan & p) const {return p.ev.size();}
  uint64_t shapeHash(const Plan & p) const
  {
    uint64_t h = mix64((uint64_t)p.checkKind, bitsOf(p.rate));
    h = mix64(h, bitsOf(p.eps));
    for (auto & e : p.ev) {
      // class of the event: kind, and for heartbeats whether it is late, for data how long the period is
      int cls = e.kind == 2 ? 6 : e.kind == 0 ? (e.v > 500000000LL ? 2 : (e.v < 1000000 ? 1 : 0)) : (e.v > 500000000LL ? 5 : (e.v < 0 ? 4 : 3));
      h = mix64(h, (uint64_t)cls);
    }
    return h;
  }
  // non-trivial: at least one heartbeat that is a timeout (late) and a data stamp after it
  bool nontrivial(const Plan & p) const
  {
    bool late = false, data = false;
    for (auto & e : p.ev) {
      if (e.kind == 2) {continue;}
      if (e.kind == 0) {if (late) {return true;} data = true;} else if (data && e.v > 500000000LL) {late = true;}
    }
    return false;
  }
  std::string signature(const Plan & p, const Outcome & o) const
  {
    std::string s = o.cls + "|" + (p.checkKind == 0 ? "EqualTo" : "GreaterThan") + "|";
    for (auto & e : p.ev) {s += e.kind == 2 ? "C" : e.kind == 0 ? "D" : (e.v > 500000000LL ? "T" : "H");}
    return s;
  }
  std::vector<uint64_t> sampleIndexes() const
  {
    uint64_t s = scriptedPlans.size();
    std::vector<uint64_t> v = {1};
    // short random worlds are the readable ones
    for (uint64_t k = 0, n = 0; k < 4000 && n < 3; ++k) {
      Plan p = randomPlan(mix64(master, k));
      if (p.ev.size() >= 6 && p.ev.size() <= 30 && nontrivial(p)) {v.push_back(s + k); ++n;}
    }
    return v;
  }
  std::vector<std::string> probeNames() const
  {
    return {"heartbeat_before_any_data", "heartbeat_exactly_0.5s_after_last_stamp", "heartbeat_0.5s_plus_1ns_after_last_stamp",
      "heartbeat_stamp_before_last_data_stamp", "timeout_with_partly_filled_window", "repeated_timeout",
      "recovery_after_timeout_with_full_window", "stamp_after_timeout_with_partly_filled_window",
      "window_one_stamp_short_of_full", "window_just_full", "window_rollover_with_irregular_periods",
      "first_stamp_zero_or_negative", "first_stamp_exactly_zero", "first_stamp_huge", "status_ok", "status_too_low", "status_too_high",
      "rate_exactly_on_target_with_zero_tolerance", "liveness_checked_after_faults_stopped", "timeouts",
      "monitor_configured_through_initialize", "copy_with_partly_filled_window"};
  }
  Json describe() const
  {
    Json d = Json::object();
    d.set("rule",
      "Each run draws a configuration (check-up kind, expected rate in [0.5,200] Hz on a dyadic grid, tolerance in "
      "{0, 2^-20, ~10 %, 1024}, clock origin, sensor rate factor, enabled fault kinds and their rates, watchdog "
      "period/skew) and runs a discrete-event world: sensor (steady / jitter / burst / silence / stall), FIFO "
      "channel (drop, delay), watchdog on its own clock (stall, constant skew, forward jumps) and boundary "
      "heartbeats placed exactly at +0.5 s, +0.5 s + 1 ns and +0.5 s - 1 ns of a stamp. The resulting explicit "
      "event list (<= 500 data stamps with strictly increasing stamps, plus heartbeats) is fed to the real "
      "RateMonitoring and CheckupRate and to the model; every observable is compared after every event. "
      "distinct = distinct hash of (kind, rate, tolerance, sequence of event classes); non-trivial = contains a "
      "late heartbeat (> 0.5 s) after data and a data stamp after it.");
    d.set("simulated_time_unit", "simulated seconds between the first and the last event of each run (simulated_seconds is the sum over runs)");
    Json comp = Json::object();
    comp.set("real_code", "RateMonitoring.cpp, CheckupRate.cpp, Checkup.hpp, CheckupEqualTo/GreaterThan.hpp, Diagnostic*.cpp (g++ -O3, asserts on)");
    comp.set("stubs", "sensor, channel and watchdog are simulated parties; the clock is the simulated nanosecond stamp passed as the Duration argument (the library reads no clock)");
    comp.set("scheduler", "event queue ordered by (simulated time, seeded tie-break); every library call is one atomic event");
    comp.set("faults", "message drop, delay, burst, silence > 0.5 s, sensor stall, watchdog stall, clock skew, clock jump, boundary heartbeats");
    d.set("components", comp);
    d.set("exhaustive", false);
    Json as = Json::array();
    as.push("data stamps are strictly increasing by construction (the property's precondition); reordering / duplication of data is not injected");
    as.push("expected rate and tolerance are dyadic so that rate +- tolerance is exact; the status is accepted if it matches the classification of the monitor's own rate or of the model's rate (they agree to 1e-12)");
    as.push("message texts ('<name>_rate is OK.' etc.) and the default stream print of the rate are taken as the observable format");
    d.set("assumptions", as);
    return d;
  }
};

int main(int argc, char ** argv) {return simMain<PropC17>(argc, argv);}
