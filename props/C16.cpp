// C16 - sliding-window statistics and ring buffers: histories of update/append
// interleaved with the restart-like events reset/clear, checked after every op
// against a deque model of "the last W items since the last restart".
#include <deque>
#include <memory>
#include <Eigen/Core>
#include "../sim/core/runner.hpp"
#include "romea_core_common/monitoring/OnlineAverage.hpp"
#include "romea_core_common/monitoring/OnlineVariance.hpp"
#include "romea_core_common/containers/Eigen/RingOfEigenVector.hpp"

using namespace sim;

namespace {

const double kPrecisions[] = {1.0, 0.5, 0.25, 0.1, 0.01, 1e-3, 1e-4, 1e-5, 1e-6, 0.0009765625 /*2^-10*/,
  1.9073486328125e-06 /*2^-19*/};
constexpr int kNumPrecisions = 11;

bool isPow2(double p) {int e; return std::frexp(p, &e) == 0.5;}

struct Op
{
  int kind;      // 0 = update/append one value, 1 = reset/clear, 2 = burst of `count` updates,
                 // 3 = continue on a copy-constructed object (statistics) / on a copy of the ring,
                 // 4 = ring only: append(ring[k]) - the argument refers into the ring itself (count = k)
  double v;      // value (kind 0) or base (kind 2)
  double step;   // kind 2: value_k = v + step * (k % period)
  int count;     // kind 2
  int period;    // kind 2
};

struct Plan
{
  int junk = 0;   // index of the byte every fresh heap allocation is filled with (sim::junkHeap)
  int subject = 0;   // 0 OnlineAverage, 1 OnlineVariance, 2 Ring<Vector2d>, 3 Ring<Vector3d>
  int W = 1;         // window size / ring capacity
  int prec = 0;      // index into kPrecisions (statistics only)
  bool viaSetWindowSize = false;  // construct with precision only, then setWindowSize(W)
  std::vector<Op> ops;
};

const char * subjectName(int s)
{
  static const char * n[] = {"OnlineAverage", "OnlineVariance", "RingOfEigenVector<Vector2d>",
    "RingOfEigenVector<Vector3d>"};
  return n[s];
}

long double absl(long double x) {return x < 0 ? -x : x;}

// ---------------------------------------------------------------- statistics
Outcome runStats(const Plan & p, Ctx & c)
{
  const double precision = kPrecisions[p.prec];
  const bool exact = isPow2(precision);
  // scale factor of the fixed-point representation as the property's reader computes it
  const long long M = exact ? (long long)(1.0 / precision) : (long long)(1.0 / precision);
  const double u = exact ? precision : precision * (1.0 + 1e-4);  // size of one truncation step
  const size_t W = (size_t)p.W;
  const bool variance = p.subject == 1;

  std::unique_ptr<romea::core::OnlineAverage> avg;
  romea::core::OnlineVariance * var = nullptr;
  if (variance) {
    var = p.viaSetWindowSize ? new romea::core::OnlineVariance(precision) :
      new romea::core::OnlineVariance(precision, W);
    avg.reset(var);
  } else {
    avg.reset(p.viaSetWindowSize ? new romea::core::OnlineAverage(precision) :
      new romea::core::OnlineAverage(precision, W));
  }
  if (p.viaSetWindowSize) {avg->setWindowSize(W);}
  if (variance && (double)M * (double)M > 2147483647.0) {SIM_PROBE("variance_scale_factor_squared_exceeds_32_bits");}

  // a bystander: another statistic object fed 1, 2, 3, ... ; nothing done to the subject may disturb it
  romea::core::OnlineVariance bystander(1.0, 3); uint64_t byN = 0;
  auto checkBystander = [&]() -> Outcome {
      ++byN; bystander.update((double)byN);
      double wantAvg = byN >= 3 ? (double)byN - 1.0 : (byN == 2 ? 1.5 : 1.0);
      if (bystander.getAverage() != wantAvg || (byN >= 3 && (bystander.getVariance() != 1.0 || !bystander.isAvailable()))) {
        return Outcome::fail("bystander-statistic-changed", fmt("another OnlineVariance object fed 1..%llu reports average %.17g variance %.17g while the subject is exercised",
                 (unsigned long long)byN, bystander.getAverage(), bystander.getVariance()));
      }
      return Outcome::pass();
    };
  uint64_t opNo = 0;
  std::unique_ptr<romea::core::OnlineAverage> sibling; romea::core::OnlineVariance * siblingVar = nullptr;
  bool haveSibling = false, sibAvail = false; double sibAvg = 0, sibVar = 0;
  auto sameD = [](double a, double b) {return (std::isnan(a) && std::isnan(b)) || a == b;};
  auto checkSibling = [&]() -> Outcome {
      if (!haveSibling) {return Outcome::pass();}
      SIM_PROBE("original_checked_after_its_copy_was_fed");
      if (!sameD(sibling->getAverage(), sibAvg) || sibling->isAvailable() != sibAvail || (siblingVar && !sameD(siblingVar->getVariance(), sibVar))) {
        return Outcome::fail("original-changed-through-its-copy", fmt("after op #%llu on a copy, the object it was copied from reports average %.17g (was %.17g), available %d (was %d)",
                 (unsigned long long)opNo, sibling->getAverage(), sibAvg, sibling->isAvailable(), sibAvail));
      }
      return Outcome::pass();
    };
  std::deque<double> win;      // the model: last W samples since the last reset
  uint64_t sinceReset = 0, totalUpdates = 0;
  bool lastWasReset = false, everReset = false;

  auto observe = [&](const char * after) -> Outcome {
      bool avail = avg->isAvailable();
      double a = avg->getAverage();
      c.log(avail); c.logd(a);
      bool wantAvail = sinceReset >= W;
      if (avail != wantAvail) {
        return Outcome::fail("availability-mismatch", fmt("after op #%llu (%s): isAvailable()=%d but "
                 "%llu samples arrived since the last reset and W=%zu", (unsigned long long)opNo, after,
                 avail, (unsigned long long)sinceReset, W));
      }
      if (win.empty()) {return Outcome::pass();}
      const size_t n = win.size();
      long double sumV = 0; for (double v : win) {sumV += v;}
      long double meanV = sumV / n;
      if (exact) {
        __int128 sq = 0;
        for (double v : win) {sq += (long long)(v * (double)M);}
        long double want = (long double)sq / ((long double)M * n);
        long double tol = 1e-12L * std::max<long double>(absl(want), precision);
        if (!(absl((long double)a - want) <= tol)) {
          return Outcome::fail("average-mismatch", fmt("after op #%llu (%s): getAverage()=%.17g, mean of "
                   "the last %zu truncated samples is %.17Lg (precision %g, W=%zu)",
                   (unsigned long long)opNo, after, a, n, want, precision, W));
        }
      } else {
        long double tol = (long double)u + 1e-9L * u + 1e-15L * absl(meanV);
        if (!(absl((long double)a - meanV) <= tol)) {
          return Outcome::fail("average-mismatch", fmt("after op #%llu (%s): getAverage()=%.17g differs "
                   "from the mean %.17Lg of the last %zu samples by more than one precision step %g "
                   "(W=%zu)", (unsigned long long)opNo, after, a, meanV, n, precision, W));
        }
      }
      if (variance && n == W && W >= 2) {
        double got = var->getVariance();
        c.logd(got);
        if (exact) {
          __int128 s1 = 0, s2 = 0;
          for (double v : win) {long long q = (long long)(v * (double)M); s1 += q; s2 += (__int128)q * q;}
          long double MM = (long double)M * (long double)M;
          long double want = ((long double)s2 - (long double)s1 * (long double)s1 / n) / (MM * (n - 1));
          long double tol = 1e-10L * ((long double)s2 / MM) / (n - 1) + 1e-300L;
          if (!(absl((long double)got - want) <= tol)) {
            return Outcome::fail("variance-mismatch", fmt("after op #%llu (%s): getVariance()=%.17g, "
                     "unbiased sample variance of the %zu truncated samples is %.17Lg (precision %g)",
                     (unsigned long long)opNo, after, got, n, want, precision));
          }
        } else {
          long double ss = 0, s2 = 0;
          for (double v : win) {ss += ((long double)v - meanV) * ((long double)v - meanV); s2 += (long double)v * v;}
          long double want = ss / (n - 1);
          long double f = (long double)n / (n - 1);
          long double tol = 2 * sqrtl(want) * u * sqrtl(f) + (long double)u * u * f +
            1e-10L * s2 / (n - 1) + 1e-300L;
          if (!(absl((long double)got - want) <= tol)) {
            return Outcome::fail("variance-mismatch", fmt("after op #%llu (%s): getVariance()=%.17g, "
                     "unbiased sample variance of the last %zu samples is %.17Lg, more than the "
                     "truncation bound %.3Lg away (precision %g)", (unsigned long long)opNo, after, got, n,
                     want, tol, precision));
          }
        }
      }
      return Outcome::pass();
    };

  {Outcome o = observe("construction"); if (!o.ok) {return o;}}
  for (const Op & op : p.ops) {
    ++opNo;
    if (op.kind == 4) {continue;}
    if (op.kind != 2) {Outcome ob = checkBystander(); if (!ob.ok) {return ob;} Outcome os = checkSibling(); if (!os.ok) {return os;}}
    if (op.kind == 3) {
      // the copy constructor must carry the whole window over: the history continues on the copy
      SIM_COUNT("op.copy_construct");
      if (!win.empty() && win.size() < W) {SIM_PROBE("copy_while_window_partly_full");}
      if (sinceReset > W) {SIM_PROBE("copy_after_wrap");}
      {
        // the original stays alive as a sibling: feeding the copy must not change what the original reports
        sibAvg = avg->getAverage(); sibAvail = avg->isAvailable(); sibVar = variance ? var->getVariance() : 0; haveSibling = true;
        if (variance) {romea::core::OnlineVariance * nv = new romea::core::OnlineVariance(*var); sibling = std::move(avg); siblingVar = var; var = nv; avg.reset(nv);} else {
          romea::core::OnlineAverage * na = new romea::core::OnlineAverage(*avg); sibling = std::move(avg); avg.reset(na);
        }
      }
      ++c.steps; c.note(fmt("#%llu continue on a copy", (unsigned long long)opNo));
      if (avg->getWindowSize() != W) {return Outcome::fail("window-size-mismatch", fmt("after op #%llu (copy): getWindowSize()=%zu, configured %zu", (unsigned long long)opNo, avg->getWindowSize(), W));}
      Outcome o = observe("copy"); if (!o.ok) {return o;}
      continue;
    }
    if (op.kind == 1) {
      SIM_COUNT("fault.reset.fired");
      if (win.empty() && sinceReset == 0) {SIM_PROBE("reset_before_any_data");}
      if (!win.empty() && win.size() < W) {SIM_PROBE("reset_while_window_partly_full");}
      if (sinceReset > W && (sinceReset % W) != 0) {SIM_PROBE("reset_after_wrap_mid_window");}
      if (sinceReset > 0 && W > 0 && (sinceReset % W) == 0) {SIM_PROBE("reset_exactly_at_window_boundary");}
      if (lastWasReset) {SIM_PROBE("reset_twice_in_a_row");}
      avg->reset();
      win.clear(); sinceReset = 0; lastWasReset = true; everReset = true;
      ++c.steps;
      c.note(fmt("#%llu reset", (unsigned long long)opNo));
      Outcome o = observe("reset"); if (!o.ok) {return o;}
      continue;
    }
    int count = op.kind == 2 ? op.count : 1;
    for (int k = 0; k < count; ++k) {
      double v = op.kind == 2 ? op.v + op.step * (double)(k % std::max(1, op.period)) : op.v;
      avg->update(v);
      win.push_back(v); if (win.size() > W) {win.pop_front();}
      ++sinceReset; ++totalUpdates; lastWasReset = false;
      ++c.steps;
      if ((c.steps & 0xfff) == 0) {c.beat();}
      SIM_COUNT("op.update");
      if (everReset && sinceReset == W + 1) {SIM_PROBE("window_wrapped_again_after_reset");}
      if (sinceReset == 10 * W) {SIM_PROBE("ten_windows_of_data");}
      if (sinceReset == 10000 * W) {SIM_PROBE("long_run_10000_windows");}
      if (c.record && op.kind == 0) {c.note(fmt("#%llu update %.17g", (unsigned long long)opNo, v));}
      Outcome o = observe(op.kind == 2 ? "burst update" : "update");
      if (!o.ok) {
        if (op.kind == 2) {o.detail += fmt(" [burst element %d]", k);}
        return o;
      }
    }
    if (c.record && op.kind == 2) {
      c.note(fmt("#%llu burst of %d updates base=%.17g step=%.17g period=%d", (unsigned long long)opNo,
        op.count, op.v, op.step, op.period));
    }
  }
  return Outcome::pass();
}

// ---------------------------------------------------------------- ring buffer
template<class Vec>
Outcome runRing(const Plan & p, Ctx & c)
{
  const size_t cap = (size_t)p.W;
  std::unique_ptr<romea::core::RingOfEigenVector<Vec>> ringPtr(new romea::core::RingOfEigenVector<Vec>(cap));
#define ring (*ringPtr)
  std::deque<double> model;  // first component of the last `cap` appended items, newest first
  uint64_t opNo = 0, sinceClear = 0; bool everCleared = false;
  const bool pow2 = (cap & (cap - 1)) == 0;
  auto make = [&](double v) {Vec x; x[0] = v; x[1] = -v; if (Vec::RowsAtCompileTime == 3) {x[Vec::RowsAtCompileTime - 1] = 0.5 * v;} return x;};
  auto observe = [&](const char * after) -> Outcome {
      size_t sz = ring.size();
      c.log(sz);
      if (sz != model.size()) {
        return Outcome::fail("ring-size-mismatch", fmt("after op #%llu (%s): size()=%zu, but min(items "
                 "since clear, capacity %zu) = %zu", (unsigned long long)opNo, after, sz, cap, model.size()));
      }
      for (size_t k = 0; k < sz; ++k) {
        const Vec & got = ring[k];
        c.logd(got[0]);
        Vec want = make(model[k]);
        if (!(got == want)) {
          return Outcome::fail("ring-entry-mismatch", fmt("after op #%llu (%s): entry [%zu] holds item "
                   "%.17g, the %zu-th most recently appended item is %.17g (capacity %zu, size %zu)",
                   (unsigned long long)opNo, after, k, got[0], k, model[k], cap, sz));
        }
      }
      return Outcome::pass();
    };
  {Outcome o = observe("construction"); if (!o.ok) {return o;}}
  for (const Op & op : p.ops) {
    ++opNo;
    if (op.kind == 3) {
      // the ring's storage as a plain vector: same items, storage order is not part of the statement
      if (ring.get().size() != model.size()) {return Outcome::fail("ring-size-mismatch", fmt("after op #%llu: get().size()=%zu, expected %zu", (unsigned long long)opNo, ring.get().size(), model.size()));}
      // continue on a copy: either copy-constructed, or copy-assigned onto another ring object of a different capacity
      // that already holds items (the copy is a ring of THIS capacity holding THESE items)
      if ((opNo & 1) == 0) {
        romea::core::RingOfEigenVector<Vec> * copy;
        if (opNo & 2) {copy = new romea::core::RingOfEigenVector<Vec>(ring);} else {romea::core::RingOfEigenVector<Vec> tmp(ring); copy = new romea::core::RingOfEigenVector<Vec>(std::move(tmp)); SIM_PROBE("ring_continue_on_moved_to");}
        ringPtr.reset(copy); SIM_PROBE("ring_continue_on_copy_constructed");
      } else {
        size_t otherCap = cap <= 8 ? cap + 5 : cap - 7;
        romea::core::RingOfEigenVector<Vec> * other = new romea::core::RingOfEigenVector<Vec>(otherCap);
        for (size_t k = 0; k < otherCap + 2; ++k) {other->append(make(-1000.0 - (double)k));}
        *other = ring; ringPtr.reset(other); SIM_PROBE("ring_continue_on_copy_assigned_over_other_capacity");
      }
      ++c.steps; c.note(fmt("#%llu continue on a copy of the ring", (unsigned long long)opNo));
      Outcome o = observe("copy"); if (!o.ok) {return o;}
      continue;
    }
    if (op.kind == 1) {
      SIM_COUNT("fault.clear.fired");
      if (!model.empty() && sinceClear % cap != 0) {SIM_PROBE("clear_with_ring_index_mid_ring");}
      if (model.empty()) {SIM_PROBE("clear_of_empty_ring");}
      ring.clear(); model.clear(); sinceClear = 0; everCleared = true;
      ++c.steps;
      c.note(fmt("#%llu clear", (unsigned long long)opNo));
      Outcome o = observe("clear"); if (!o.ok) {return o;}
      continue;
    }
    if (op.kind == 4) {
      if (model.empty()) {continue;}
      size_t k = (size_t)op.count % model.size(); double v = model[k];
      ring.append(ring[k]);     // the value of ring[k] at the time of the call is what must be appended
      model.push_front(v); if (model.size() > cap) {model.pop_back();}
      ++sinceClear; ++c.steps; SIM_PROBE("append_of_a_reference_into_the_ring_itself");
      c.note(fmt("#%llu append(ring[%zu])", (unsigned long long)opNo, k));
      Outcome o = observe("self-append"); if (!o.ok) {return o;}
      continue;
    }
    int count = op.kind == 2 ? op.count : 1;
    for (int k = 0; k < count; ++k) {
      double v = op.kind == 2 ? op.v + op.step * (double)k : op.v;
      if ((opNo + (uint64_t)k) & 1) {Vec named = make(v); ring.append(named);} else {ring.append(make(v));}   // lvalue and rvalue arguments
      model.push_front(v); if (model.size() > cap) {model.pop_back();}
      ++sinceClear; ++c.steps;
      SIM_COUNT("op.append");
      if (!pow2 && sinceClear > cap) {SIM_PROBE("ring_capacity_not_power_of_two_wrapped");}
      if (everCleared && sinceClear > cap) {SIM_PROBE("ring_wrapped_again_after_clear");}
      if (c.record && op.kind == 0) {c.note(fmt("#%llu append item %.17g", (unsigned long long)opNo, v));}
      Outcome o = observe("append"); if (!o.ok) {return o;}
    }
    if (c.record && op.kind == 2) {
      c.note(fmt("#%llu burst of %d appends from item %.17g", (unsigned long long)opNo, op.count, op.v));
    }
  }
  return Outcome::pass();
#undef ring
}

}  // namespace

struct PropC16
{
  using Plan = ::Plan;
  static constexpr const char * id = "C16";
  static constexpr const char * engine = "E1 seqsim";

  uint64_t master = 1;
  std::string tier;
  uint64_t nRandom = 0, nLong = 0;
  std::vector<Plan> scriptedPlans;

  double hangSeconds() const {return 30;}
  double wallCapSeconds() const {return tier == "quick" ? 100 : 840;}

  void configure(const std::string & t, uint64_t seed)
  {
    tier = t;
    uint64_t x = seed; master = splitmix64(x) ^ hashStr(id);
    buildScripted();
    nRandom = tier == "quick" ? 4000000 : 150000000;
    nLong = tier == "quick" ? 160 : 3200;
  }
  uint64_t totalRuns() const {return scriptedPlans.size() + nLong + nRandom;}

  static Op U(double v) {return Op {0, v, 0, 1, 1};}
  static Op R() {return Op {1, 0, 0, 0, 1};}
  static Op C() {return Op {3, 0, 0, 0, 1};}
  static Op B(double base, double step, int count, int period) {return Op {2, base, step, count, period};}

  void buildScripted()
  {
    scriptedPlans.clear();
    {Plan p; p.subject = 0; p.W = 3; p.prec = 0; p.ops = {U(1), U(2), R(), U(10), U(20), U(30), U(40)};
      scriptedPlans.push_back(p);}
    {Plan p; p.subject = 1; p.W = 4; p.prec = 8; p.ops = {U(1), U(2), U(3), U(4), U(5)};
      scriptedPlans.push_back(p);}
    {Plan p; p.subject = 1; p.W = 3; p.prec = 0; p.ops = {U(1), U(2), R(), R(), U(10), U(20), U(30), U(40), R()};
      scriptedPlans.push_back(p);}
    {Plan p; p.subject = 2; p.W = 3; p.ops = {U(1), U(2), U(3), U(4), R(), R(), U(5), U(6), U(7), U(8)};
      scriptedPlans.push_back(p);}
    {Plan p; p.subject = 3; p.W = 4; p.ops = {U(1), U(2), R(), U(3), U(4), U(5), U(6), U(7)};
      scriptedPlans.push_back(p);}
    {Plan p; p.subject = 1; p.W = 3; p.prec = 2; p.ops = {U(1), C(), U(2), U(3), U(4), C(), U(5), R(), C(), U(6), U(7)}; scriptedPlans.push_back(p);}
    {Plan p; p.subject = 0; p.W = 2; p.prec = 9; p.viaSetWindowSize = true;
      p.ops = {R(), U(0.5), U(-0.25), U(3), R(), U(1)}; scriptedPlans.push_back(p);}
  }

  // value generator for the statistics, honouring |v| / precision <= 1e8
  static double drawValue(Rng & r, int regime, double precision, bool exact, int k, double c0, double c1)
  {
    const double L = 1e8 * precision;
    const double unit = exact ? precision / 8 : precision;
    double v = 0;
    switch (regime) {
      case 0: v = c0; break;                                   // constant
      case 1: v = c0 + c1 * k; break;                          // ramp
      case 2: v = r.uniform(-L, L); break;                     // uniform over the whole range
      case 3: v = (k % 2 ? -1 : 1) * 0.9 * L + r.uniform(-1, 1) * 1000 * precision; break;  // +-large
      case 4: v = (double)r.range(-64, 64) * unit; break;      // near the precision
      case 5: v = (double)r.range(-100000000, 100000000) * precision; break;  // exact multiples
      case 7: {                                                // a few ulps beside a multiple of the precision
        v = (double)r.range(-1000, 1000) * precision * (r.chance(0.3) ? 1000.0 : 1.0);
        int n = (int)r.range(0, 3); double to = r.chance(0.5) ? 0.0 : (v < 0 ? -2 * L : 2 * L);
        if (v == 0) {to = r.chance(0.5) ? -1.0 : 1.0;}
        for (int q = 0; q < n; ++q) {v = std::nextafter(v, to);}
        break;
      }
      default: v = r.uniform(0, L); break;                     // non-negative
    }
    if (exact && regime != 7) {v = std::nearbyint(v / unit) * unit;}
    if (v > L) {v = L;}
    if (v < -L) {v = -L;}
    return v;
  }

  Plan randomPlan(uint64_t runseed, bool longRun) const
  {
    Rng r(runseed);
    Plan p;
    p.subject = (int)r.below(4);
    if (longRun) {p.subject = (int)r.below(2);}
    bool stats = p.subject < 2;
    if (stats) {
      p.W = (int)(r.chance(0.5) ? r.range(1, 8) : r.range(1, 64));
      if (p.subject == 1 && p.W < 2) {p.W = 2;}
      p.prec = (int)r.below(kNumPrecisions);
      p.viaSetWindowSize = r.chance(0.15);
    } else {
      p.W = (int)r.range(1, 16);
    }
    const double precision = kPrecisions[p.prec];
    const bool exact = isPow2(precision);
    double pRestart = r.pick({0.0, 0.02, 0.1, 0.3});
    double pCopy = r.pick({0.0, 0.0, 0.05, 0.2});
    if (pRestart > 0) {SIM_COUNT(stats ? "fault.reset.configured" : "fault.clear.configured");}
    int regime = (int)r.below(8);
    double c0 = drawValue(r, 2, precision, exact, 0, 0, 0) * 0.5;
    double c1 = drawValue(r, 4, precision, exact, 0, 0, 0) * 16;
    if (longRun) {
      // drift: 10^4 windows of data, with a reset somewhere inside in half of the runs
      int total = 10000 * p.W;
      int period = (int)r.range(1, 4 * p.W + 3);
      double base = c0 * 0.5, step = c1 * 0.25;
      if (r.chance(0.5)) {
        int cut = (int)r.range(1, total - 1);
        p.ops.push_back(B(base, step, cut, period)); p.ops.push_back(R());
        p.ops.push_back(B(base, step, total - cut, period));
      } else {p.ops.push_back(B(base, step, total, period));}
      p.ops.push_back(U(c0));
      return p;
    }
    int maxLen = 10 * p.W;
    int regime2 = (int)r.below(8); int switchAt = r.chance(0.4) ? (int)r.range(1, 3 * p.W + 2) : -1;
    if (r.chance(0.3)) {regime = r.chance(0.5) ? 3 : 6; regime2 = 4;}   // large magnitudes first, near-precision values after
    int len = (int)r.range(0, r.chance(0.3) ? maxLen : std::min(maxLen, 3 * p.W + 4));
    int item = 1;
    for (int k = 0; k < len; ++k) {
      if (r.chance(pRestart)) {
        p.ops.push_back(R());
        if (r.chance(0.2)) {p.ops.push_back(R());}
        continue;
      }
      if (r.chance(pCopy)) {p.ops.push_back(C()); if (!stats && r.chance(0.5)) {p.ops.push_back(C());}}
      if (stats && switchAt > 0 && k == switchAt) {regime = regime2;}   // e.g. samples near the top of the range, then tiny ones
      if (stats) {p.ops.push_back(U(drawValue(r, regime, precision, exact, k, c0, c1)));} else if (r.chance(0.1)) {
        p.ops.push_back(Op {4, 0, 0, (int)r.below(16), 1});
      } else {
        p.ops.push_back(U((double)item++));
      }
      // bias: a restart right after the window / ring has just wrapped
      if (pRestart > 0 && (k % p.W) == 0 && k >= p.W && r.chance(0.15)) {p.ops.push_back(R());}
    }
    return p;
  }

  // heap contents are an input of the run like any other: every fresh allocation is filled with a byte chosen by the plan
  Plan generate(uint64_t index) const {Plan p = generate0(index); p.junk = (int)(mix64(master ^ 0x6a756e6bULL, index) % 5); return p;}
  Outcome execute(const Plan & p, Ctx & c) const {sim::junkHeap(p.junk); return execute0(p, c);}
  Json toJson(const Plan & p) const {Json j = toJson0(p); j.set("heap_fill_index", p.junk); return j;}
  Plan fromJson(const Json & j) const {Plan p = fromJson0(j); if (j.has("heap_fill_index")) {p.junk = (int)j["heap_fill_index"].i();} return p;}
  std::vector<Plan> simpler(const Plan & p) const {std::vector<Plan> out = simpler0(p); if (p.junk != 0) {Plan q = p; q.junk = 0; out.push_back(q);} return out;}
  Plan generate0(uint64_t index) const
  {
    if (index < scriptedPlans.size()) {return scriptedPlans[index];}
    index -= scriptedPlans.size();
    if (index < nLong) {return randomPlan(mix64(master ^ 0x10a6, index), true);}
    index -= nLong;
    return randomPlan(mix64(master, index), false);
  }

  Outcome execute0(const Plan & p, Ctx & c) const
  {
    switch (p.subject) {
      case 0: case 1: return runStats(p, c);
      case 2: return runRing<Eigen::Vector2d>(p, c);
      default: return runRing<Eigen::Vector3d>(p, c);
    }
  }

  Json toJson0(const Plan & p) const
  {
    Json j = Json::object();
    j.set("subject", subjectName(p.subject)).set("subject_id", p.subject).set("W", p.W);
    if (p.subject < 2) {
      j.set("precision", kPrecisions[p.prec]).set("precision_index", p.prec)
      .set("via_setWindowSize", p.viaSetWindowSize);
    }
    Json ops = Json::array();
    for (auto & o : p.ops) {
      Json e = Json::object();
      if (o.kind == 0) {e.set("op", p.subject < 2 ? "update" : "append").set("v", o.v);} else if (o.kind == 1) {
        e.set("op", p.subject < 2 ? "reset" : "clear");
      } else if (o.kind == 4) {
        e.set("op", "append_own_entry").set("k", o.count);
      } else if (o.kind == 3) {
        e.set("op", p.subject < 2 ? "continue_on_copy" : "check_storage_vector");
      } else {
        e.set("op", "burst").set("base", o.v).set("step", o.step).set("count", o.count).set("period", o.period);
      }
      ops.push(e);
    }
    j.set("ops", ops);
    return j;
  }
  Plan fromJson0(const Json & j) const
  {
    Plan p; p.subject = (int)j["subject_id"].i(); p.W = (int)j["W"].i();
    if (p.subject < 2) {p.prec = (int)j["precision_index"].i(); p.viaSetWindowSize = j["via_setWindowSize"].b();}
    for (auto & e : j["ops"].a()) {
      const std::string & k = e["op"].s();
      if (k == "update" || k == "append") {p.ops.push_back(U(e["v"].d()));} else if (k == "reset" || k == "clear") {
        p.ops.push_back(R());
      } else if (k == "append_own_entry") {p.ops.push_back(Op {4, 0, 0, (int)e["k"].i(), 1});
      } else if (k == "continue_on_copy" || k == "check_storage_vector") {p.ops.push_back(C());
      } else {p.ops.push_back(B(e["base"].d(), e["step"].d(), (int)e["count"].i(), (int)e["period"].i()));}
    }
    return p;
  }

  static bool valuesFit(const Plan & p)
  {
    if (p.subject >= 2) {return true;}
    double L = 1e8 * kPrecisions[p.prec];
    for (auto & o : p.ops) {
      if (o.kind == 0 && std::fabs(o.v) > L) {return false;}
      if (o.kind == 2 && (std::fabs(o.v) > L || std::fabs(o.v + o.step * (o.period - 1)) > L)) {return false;}
    }
    return true;
  }

  std::vector<Plan> simpler0(const Plan & p) const
  {
    std::vector<Plan> out;
    removalCandidates(p.ops, [&](std::vector<Op> v) {Plan q = p; q.ops = std::move(v); out.push_back(q);});
    int minW = p.subject == 1 ? 2 : 1;
    if (p.W / 2 >= minW && p.W / 2 < p.W) {Plan q = p; q.W = p.W / 2; out.push_back(q);}
    if (p.W - 1 >= minW) {Plan q = p; q.W = p.W - 1; out.push_back(q);}
    if (p.viaSetWindowSize) {Plan q = p; q.viaSetWindowSize = false; out.push_back(q);}
    if (p.subject < 2 && p.prec != 0) {Plan q = p; q.prec = 0; if (valuesFit(q)) {out.push_back(q);}}
    for (size_t k = 0; k < p.ops.size(); ++k) {
      const Op & o = p.ops[k];
      if (o.kind == 2) {
        if (o.count > 1) {
          Plan q = p; q.ops[k].count = o.count / 2; out.push_back(q);
          Plan q2 = p; q2.ops[k].count = o.count - 1; out.push_back(q2);
        }
        if (o.count <= 8) {
          Plan q = p; q.ops.erase(q.ops.begin() + (long)k);
          for (int i = 0; i < o.count; ++i) {
            q.ops.insert(q.ops.begin() + (long)k + i, U(o.v + o.step * (double)(i % std::max(1, o.period))));
          }
          out.push_back(q);
        }
      }
      if (o.kind == 0 && p.subject < 2) {
        double simple = (double)(k + 1);
        if (o.v != simple) {Plan q = p; q.ops[k].v = simple; if (valuesFit(q)) {out.push_back(q);}}
        double rounded = std::nearbyint(o.v);
        if (o.v != rounded && rounded != simple) {Plan q = p; q.ops[k].v = rounded; if (valuesFit(q)) {out.push_back(q);}}
      }
    }
    return out;
  }

  uint64_t planSize(const Plan & p) const
  {
    uint64_t n = 0; for (auto & o : p.ops) {n += o.kind == 2 ? (uint64_t)o.count : 1;} return n;
  }
  uint64_t shapeHash(const Plan & p) const
  {
    uint64_t h = mix64((uint64_t)p.subject * 1000 + (uint64_t)p.W, (uint64_t)p.prec * 2 + p.viaSetWindowSize);
    for (auto & o : p.ops) {h = mix64(h, (uint64_t)o.kind * 7919 + (o.kind == 2 ? (uint64_t)o.count : 0));}
    return h;
  }
  // non-trivial: a restart with data before it and an observation of new data after it
  bool nontrivial(const Plan & p) const
  {
    bool data = false, restartAfterData = false;
    for (auto & o : p.ops) {
      if (o.kind == 3) {continue;}
      if (o.kind == 1) {if (data) {restartAfterData = true;}} else {
        if (restartAfterData) {return true;}
        data = true;
      }
    }
    return false;
  }
  std::string signature(const Plan & p, const Outcome & o) const
  {
    std::string s = o.cls + "|" + subjectName(p.subject) + "|";
    for (auto & op : p.ops) {s += op.kind == 0 ? "U" : (op.kind == 1 ? "R" : (op.kind == 3 ? "C" : (op.kind == 4 ? "S" : "B")));}
    return s;
  }
  std::vector<uint64_t> sampleIndexes() const
  {
    uint64_t s = scriptedPlans.size();
    return {0, 3, s + nLong + 5, s + nLong + nRandom / 2, s + nLong + nRandom - 1};
  }
  std::vector<std::string> probeNames() const
  {
    return {"reset_before_any_data", "reset_while_window_partly_full", "reset_after_wrap_mid_window",
      "reset_exactly_at_window_boundary", "reset_twice_in_a_row", "window_wrapped_again_after_reset",
      "ten_windows_of_data", "long_run_10000_windows", "variance_scale_factor_squared_exceeds_32_bits",
      "copy_while_window_partly_full", "copy_after_wrap", "original_checked_after_its_copy_was_fed", "append_of_a_reference_into_the_ring_itself", "ring_continue_on_copy_constructed", "ring_continue_on_copy_assigned_over_other_capacity", "clear_with_ring_index_mid_ring", "clear_of_empty_ring", "ring_capacity_not_power_of_two_wrapped",
      "ring_wrapped_again_after_clear"};
  }
  Json describe() const
  {
    Json d = Json::object();
    d.set("rule",
      "A plan is (subject in {OnlineAverage, OnlineVariance, Ring<Vector2d>, Ring<Vector3d>}, W, precision, "
      "list of update/append, reset/clear and burst ops); per run the window, precision, value regime "
      "(constant, ramp, full-range uniform, alternating +-large, near-precision, exact multiples, a few ulps beside a multiple of the precision, "
      "non-negative), restart probability and length (0..10*W, plus long runs of 10^4*W updates) are drawn "
      "from the run seed. After every single update/append/reset/clear the observable state is compared "
      "with a deque model. distinct = distinct hash of (subject, W, precision, op-kind sequence); "
      "non-trivial = a reset/clear with data before it and new data observed after it.");
    Json ph = Json::array();
    Json a = Json::object(); a.set("name", "scripted").set("runs", (uint64_t)scriptedPlans.size()); ph.push(a);
    Json b = Json::object(); b.set("name", "long-runs-10^4-windows").set("runs", nLong); ph.push(b);
    Json e = Json::object(); e.set("name", "random-histories").set("runs", nRandom); ph.push(e);
    d.set("phases", ph);
    d.set("exhaustive", false);
    Json comp = Json::object();
    comp.set("real_code", "OnlineAverage.cpp, OnlineVariance.cpp (g++ -O3, asserts on), RingOfEigenVector.hpp");
    comp.set("stubs", "none; reference model = std::deque of the last W items since the last restart");
    comp.set("scheduler", "not used here (single owner); the same model is the sequential specification in C19");
    comp.set("clock", "not used");
    comp.set("faults", "restart-like events reset()/clear() placed at arbitrary points of the history");
    d.set("components", comp);
    Json as = Json::array();
    as.push("'truncated to the configured precision' is read as truncation toward zero of value/precision");
    as.push("for power-of-two precisions samples are dyadic, scaling is exact and the average/variance are compared with exact integer arithmetic (1e-12 / 1e-10 relative); for decimal precisions the sound bound |avg - mean| <= precision*(1+1e-4) and the corresponding Cauchy-Schwarz bound on the variance are used");
    as.push("getAverage() with no sample in the window and getVariance() before the window is full are not compared (the statement does not define them)");
    as.push("window size is fixed before the first sample; changing it mid-history is outside the statement");
    d.set("assumptions", as);
    return d;
  }
};

int main(int argc, char ** argv) {return simMain<PropC16>(argc, argv);}
