// Shared between the uninstrumented check driver (C19.cpp) and the instrumented workload (C19_work.cpp).
#pragma once
#include <cstdint>
#include <string>
#include <vector>
#include "../sim/sched/rt.hpp"

namespace c19 {

enum Scenario {S_SHARED_VAR = 0, S_SHARED_OPT, S_ONLINE_AVG, S_ONLINE_VAR, S_CHECKUP_EQ, S_CHECKUP_GT, S_CHECKUP_LT,
  S_RELIABILITY, S_RATE_MON, S_CHECKUP_RATE_EQ, S_CHECKUP_RATE_GT, S_COUNT};

inline const char * scenarioName(int s)
{
  static const char * n[] = {"SharedVariable", "SharedOptionalVariable", "OnlineAverage", "OnlineVariance", "CheckupEqualTo",
    "CheckupGreaterThan", "CheckupLowerThan", "CheckupReliability", "RateMonitoring", "CheckupEqualToRate", "CheckupGreaterThanRate"};
  return (s >= 0 && s < S_COUNT) ? n[s] : "?";
}

enum OpKind {O_STORE = 0, O_LOAD, O_CONSUME, O_UPDATE, O_RESET, O_GET_AVG, O_IS_AVAIL, O_GET_VAR, O_EVALUATE, O_TIMEOUT,
  O_GET_REPORT, O_RM_UPDATE, O_RM_TIMEOUT, O_RM_GET_RATE, O_CR_EVALUATE, O_CR_HEARTBEAT, O_CR_GET_REPORT, O_COUNT};

inline const char * opName(int k)
{
  static const char * n[] = {"store", "load", "consume", "update", "reset", "getAverage", "isAvailable", "getVariance", "evaluate",
    "timeout", "getReport", "update", "timeout", "getRate", "evaluate", "heartBeatCallback", "getReport"};
  return (k >= 0 && k < O_COUNT) ? n[k] : "?";
}

struct Op
{
  int kind = 0;
  double v = 0;        // sample / value to evaluate
  int64_t t = 0;       // stamp in ns (rate scenarios)
  uint64_t seq = 0;    // sequence number of a stored blob
};

struct Task
{
  int role = 0;        // 0 writer / producer / evaluator, 1 reader / consumer, 2 watchdog / heartbeat,
                       // 3 neighbour: the only user of a second object of the same class (not part of the history)
  std::vector<Op> ops;
  // long runs: the op list is executed `repeat` times; cycle r adds r*vStep to v, r*tStep to t, r*seqStep to seq
  uint32_t repeat = 1;
  double vStep = 0; int64_t tStep = 0; uint64_t seqStep = 0;
};

struct SchedCfg
{
  uint64_t seed = 1;
  int policy = 0, pctDepth = 2; uint64_t pctSteps = 1000; int sliceMean = 8; int yieldShift = 3;
  bool useTrace = false;
  std::vector<int> trace;
};

struct Plan
{
  int scenario = 0;
  int W = 2;            // window of the online statistics
  double a = 0, b = 0;  // thresholds (target, epsilon / low, high) or (expected rate, tolerance)
  bool longRun = false; // no history: O(1) monitors inside the threads
  std::vector<Task> tasks;
  SchedCfg sched;
};

struct Rec
{
  int task = 0, index = 0, kind = 0;
  double v = 0; int64_t t = 0; uint64_t seq = 0;
  uint64_t inv = 0, ret = 0;     // global event counter at invocation and return
  int status = -1; bool flag = false; bool has = false; double out = 0; uint64_t outSeq = 0;
  std::string msg, val;
};

struct ExecResult
{
  bool failed = false; std::string cls, detail, sig;
  std::vector<std::vector<Rec>> hist;   // per task, in program order (short runs)
  std::vector<std::vector<uint64_t>> consumed;  // long optional runs: consumed sequence numbers per consumer
  simrt::Stats stats;
  std::vector<int> trace;
  bool harnessError = false; std::string harnessWhat;
  uint64_t opsExecuted = 0;
  int finalTask = -1;   // index in hist of the observations the main context made after the join
};

ExecResult runScenario(const Plan & plan, bool recordTrace);

// self-checking 4-word blob: every word is a function of the sequence number
struct Blob
{
  uint64_t w[4];
  static Blob make(uint64_t seq)
  {
    Blob b; b.w[0] = seq; b.w[1] = ~seq; b.w[2] = seq * 0x9e3779b97f4a7c15ULL; b.w[3] = seq ^ 0x5555aaaa5555aaaaULL; return b;
  }
  bool intact() const {return w[1] == ~w[0] && w[2] == w[0] * 0x9e3779b97f4a7c15ULL && w[3] == (w[0] ^ 0x5555aaaa5555aaaaULL);}
};

constexpr const char * kName = "dev";
constexpr const char * kNeighbourName = "nbr";   // name of the second object that only the neighbour thread (role 3) uses
constexpr uint64_t kInitialOptionalSeq = (uint64_t)9 << 32;   // value an optional is born with when Plan::a != 0   // name given to every check-up in the scenarios

}  // namespace c19
