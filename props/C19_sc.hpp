// Sequential specifications of the C19 scenarios and the search for a sequential explanation of a
// recorded concurrent history (used by props/C19.cpp and cross-checked by tools/selftest_sc.cpp).
#pragma once
#include <deque>
#include <unordered_set>
#include "../sim/core/prng.hpp"
#include "../models/rate.hpp"
#include "../models/checkup.hpp"
#include "C19_plan.hpp"

namespace c19 {
using sim::mix64; using sim::hashStr; using sim::bitsOf;

inline bool closeTo(double a, double b)
{
  if (std::isnan(a) || std::isnan(b)) {return std::isnan(a) && std::isnan(b);}
  return std::fabs(a - b) <= 1e-9 * std::max(1.0, std::max(std::fabs(a), std::fabs(b)));
}

// ---------------------------------------------------------------- sequential specifications
// For the online statistics the sequential specification is the library class itself, executed
// sequentially (set by props/C19.cpp): getAverage() on an empty window and getVariance() before the window is
// full are not defined by any statement, but "a value some sequential ordering of the calls would produce" is
// defined by what the implementation does sequentially. Without the hooks (tools/selftest_sc.cpp) a deque model
// that leaves those reads unconstrained is used.
struct TwinOps
{
  void * (*make)(int W, bool variance);
  void * (*clone)(void *, bool variance);
  void (*destroy)(void *, bool variance);
  bool (*apply)(void *, bool variance, const Rec &);
};
inline TwinOps * gTwinOps = nullptr;

struct SeqModel
{
  void * twin = nullptr; bool twinVar = false; uint64_t twinHash = 0;
  SeqModel() = default;
  SeqModel(const SeqModel & o) {*this = o;}
  SeqModel & operator=(const SeqModel & o)
  {
    if (this == &o) {return *this;}
    if (twin) {gTwinOps->destroy(twin, twinVar); twin = nullptr;}
    sc = o.sc; W = o.W; a = o.a; b = o.b; cur = o.cur; has = o.has; win = o.win; since = o.since; chk = o.chk; rate = o.rate; rep = o.rep;
    twinVar = o.twinVar; twinHash = o.twinHash;
    if (o.twin) {twin = gTwinOps->clone(o.twin, o.twinVar);}
    return *this;
  }
  ~SeqModel() {if (twin) {gTwinOps->destroy(twin, twinVar);}}

  int sc = 0; int W = 2; double a = 0, b = 0;
  uint64_t cur = 0; bool has = false;                 // shared variable / optional mailbox
  std::deque<double> win; uint64_t since = 0;          // online statistics
  model::CheckupModel chk;                             // value check-ups
  model::RateModel rate;                               // rate monitor
  model::ReportModel rep;                              // rate check-up report

  void init(const Plan & p)
  {
    sc = p.scenario; W = p.W; a = p.a; b = p.b;
    int k = sc == S_CHECKUP_EQ ? model::EqualTo : sc == S_CHECKUP_GT ? model::GreaterThan : sc == S_CHECKUP_LT ? model::LowerThan : model::Reliability;
    chk = model::CheckupModel(k, kName, a, b);
    if (sc >= S_RATE_MON) {rate.init(a);}
    rep.status = model::ERROR; rep.message = std::string("no data received from ") + kName; rep.value = "";
    if (sc == S_SHARED_OPT && a != 0) {has = true; cur = kInitialOptionalSeq;}
    if (twin) {gTwinOps->destroy(twin, twinVar); twin = nullptr;}
    twinHash = 0;
    if (gTwinOps && (sc == S_ONLINE_AVG || sc == S_ONLINE_VAR)) {twinVar = sc == S_ONLINE_VAR; twin = gTwinOps->make(W, twinVar);}
  }
  int rateKind() const {return sc == S_CHECKUP_RATE_EQ ? model::EqualTo : model::GreaterThan;}

  // apply the operation in program/sequential order; false if the value the thread observed is not what
  // this order produces
  bool apply(const Rec & r)
  {
    if (twin && r.kind >= O_UPDATE && r.kind <= O_GET_VAR) {
      if (r.kind == O_UPDATE || r.kind == O_RESET) {twinHash = mix64(twinHash, (uint64_t)r.kind * 31 + bitsOf(r.v));}
      return gTwinOps->apply(twin, twinVar, r);
    }
    switch (r.kind) {
      case O_STORE: cur = r.seq; has = true; return true;
      case O_LOAD: return r.flag ? r.outSeq == (cur & 1) : r.outSeq == cur;   // r.flag: the SharedVariable<bool> instantiation
      case O_CONSUME: {
          if (r.has != has) {return false;}
          if (has && r.outSeq != cur) {return false;}
          has = false; return true;
        }
      case O_UPDATE: win.push_back(std::trunc(r.v)); if ((int)win.size() > W) {win.pop_front();} ++since; return true;
      case O_RESET: win.clear(); since = 0; return true;
      case O_IS_AVAIL: return r.flag == (since >= (uint64_t)W);
      case O_GET_AVG: {
          if (win.empty()) {return true;}      // not defined by the statement
          double s = 0; for (double v : win) {s += v;}
          return closeTo(r.out, s / (double)win.size());
        }
      case O_GET_VAR: {
          if ((int)win.size() < W || W < 2) {return true;}   // defined once the window is full
          long double s = 0, ss = 0; for (double v : win) {s += v;}
          long double m = s / win.size(); for (double v : win) {ss += (v - m) * (v - m);}
          return closeTo(r.out, (double)(ss / (win.size() - 1)));
        }
      case O_EVALUATE: return chk.evaluate(r.v) == r.status;
      case O_TIMEOUT: chk.timeout(); return true;
      case O_GET_REPORT: return r.status == chk.rep.status && r.msg == chk.rep.message && r.val == chk.rep.value;
      case O_RM_UPDATE: {double m = rate.update(r.t); return closeTo(r.out, m);}
      case O_RM_TIMEOUT: return rate.timeout(r.t) == r.flag;
      case O_RM_GET_RATE: return closeTo(r.out, rate.rate);
      case O_CR_EVALUATE: {
          double m = rate.update(r.t);
          model::Verdict v = model::classify(rateKind(), m, a, b);
          rep.status = v.status; rep.message = std::string(kName) + "_rate" + v.suffix; rep.value = model::printValue(m);
          return r.status == v.status;
        }
      case O_CR_HEARTBEAT: {
          bool to = rate.timeout(r.t);
          if (to) {rep.status = model::STALE; rep.message = std::string(kName) + "_rate timeout."; rep.value = "";}
          return r.flag == !to;
        }
      case O_CR_GET_REPORT: return r.status == rep.status && r.msg == rep.message && r.val == rep.value;
      default: return true;
    }
  }
  // execute the operation atomically on the model and fill in what the caller observes (self-test only)
  void perform(Rec & r)
  {
    switch (r.kind) {
      case O_STORE: cur = r.seq; has = true; break;
      case O_LOAD: r.outSeq = r.flag ? (cur & 1) : cur; break;
      case O_CONSUME: r.has = has; r.outSeq = has ? cur : 0; has = false; break;
      case O_UPDATE: case O_RESET: case O_TIMEOUT: apply(r); break;
      case O_IS_AVAIL: r.flag = since >= (uint64_t)W; break;
      case O_GET_AVG: {double s = 0; for (double v : win) {s += v;} r.out = win.empty() ? std::nan("") : s / (double)win.size(); break;}
      case O_GET_VAR: {
          long double s = 0, ss = 0; for (double v : win) {s += v;}
          long double m = win.empty() ? 0 : s / win.size(); for (double v : win) {ss += (v - m) * (v - m);}
          r.out = win.size() < 2 ? std::nan("") : (double)(ss / (win.size() - 1)); break;
        }
      case O_EVALUATE: r.status = chk.evaluate(r.v); break;
      case O_GET_REPORT: r.status = chk.rep.status; r.msg = chk.rep.message; r.val = chk.rep.value; break;
      case O_RM_UPDATE: r.out = rate.update(r.t); break;
      case O_RM_TIMEOUT: r.flag = rate.timeout(r.t); break;
      case O_RM_GET_RATE: r.out = rate.rate; break;
      case O_CR_EVALUATE: {
          double m = rate.update(r.t); model::Verdict v = model::classify(rateKind(), m, a, b);
          rep.status = v.status; rep.message = std::string(kName) + "_rate" + v.suffix; rep.value = model::printValue(m); r.status = v.status; break;
        }
      case O_CR_HEARTBEAT: {
          bool to = rate.timeout(r.t);
          if (to) {rep.status = model::STALE; rep.message = std::string(kName) + "_rate timeout."; rep.value = "";}
          r.flag = !to; break;
        }
      case O_CR_GET_REPORT: r.status = rep.status; r.msg = rep.message; r.val = rep.value; break;
      default: break;
    }
  }
  uint64_t hash() const
  {
    uint64_t h = mix64(cur, has);
    h = mix64(h, twinHash);
    for (double v : win) {h = mix64(h, bitsOf(v));}
    h = mix64(h, since);
    h = mix64(h, (uint64_t)chk.rep.status); h = mix64(h, hashStr(chk.rep.value)); h = mix64(h, hashStr(chk.rep.message));
    for (int64_t s : rate.stamps) {h = mix64(h, (uint64_t)s);}
    h = mix64(h, bitsOf(rate.rate)); h = mix64(h, rate.seen);
    h = mix64(h, (uint64_t)rep.status); h = mix64(h, hashStr(rep.value)); h = mix64(h, hashStr(rep.message)); h = mix64(h, (uint64_t)rate.last);
    return h;
  }
};

struct ScSearch
{
  const std::vector<std::vector<Rec>> & hist; bool realTime;
  std::unordered_set<uint64_t> dead; uint64_t nodes = 0; bool gaveUp = false;
  int finalTask = -1;   // observations made after the join: eligible only when every other thread is done
  ScSearch(const std::vector<std::vector<Rec>> & h, bool rt, int fin = -1) : hist(h), realTime(rt), finalTask(fin) {}
  bool allowed(const std::vector<size_t> & pos, size_t k) const
  {
    if ((int)k == finalTask) {
      for (size_t j = 0; j < hist.size(); ++j) {if (j != k && pos[j] < hist[j].size()) {return false;}}
    }
    if (!realTime) {return true;}
    const Rec & x = hist[k][pos[k]];
    for (size_t j = 0; j < hist.size(); ++j) {
      if (j != k && pos[j] < hist[j].size() && hist[j][pos[j]].ret < x.inv) {return false;}
    }
    return true;
  }
  bool go(std::vector<size_t> pos, const SeqModel & m)
  {
    // an enabled operation that leaves the model state unchanged (a read whose result matches now) can
    // always be taken first: it commutes with everything that follows, so this loses no solution
    const uint64_t mh = m.hash();
    for (bool moved = true; moved; ) {
      moved = false;
      for (size_t k = 0; k < hist.size(); ++k) {
        while (pos[k] < hist[k].size() && allowed(pos, k)) {
          const Rec & x = hist[k][pos[k]];
          // only operations whose observed result shows that they changed nothing wherever they are placed
          bool pure = x.kind == O_LOAD || x.kind == O_GET_AVG || x.kind == O_IS_AVAIL || x.kind == O_GET_VAR || x.kind == O_GET_REPORT ||
            x.kind == O_RM_GET_RATE || x.kind == O_CR_GET_REPORT || (x.kind == O_CONSUME && !x.has) || (x.kind == O_RM_TIMEOUT && !x.flag) ||
            (x.kind == O_CR_HEARTBEAT && x.flag);
          if (!pure) {break;}
          SeqModel m2 = m;
          if (m2.apply(x) && m2.hash() == mh) {++pos[k]; moved = true;} else {break;}
        }
      }
    }
    bool done = true;
    for (size_t k = 0; k < hist.size(); ++k) {if (pos[k] < hist[k].size()) {done = false;}}
    if (done) {return true;}
    if (++nodes > 2000000) {gaveUp = true; return true;}   // never claim a violation we could not establish
    uint64_t key = mh;
    for (size_t k = 0; k < pos.size(); ++k) {key = mix64(key, pos[k] * 131 + k);}
    if (dead.count(key)) {return false;}
    for (size_t k = 0; k < hist.size(); ++k) {
      if (pos[k] >= hist[k].size() || !allowed(pos, k)) {continue;}
      SeqModel m2 = m;
      if (!m2.apply(hist[k][pos[k]])) {continue;}
      ++pos[k];
      if (go(pos, m2)) {return true;}
      --pos[k];
    }
    dead.insert(key);
    return false;
  }
};


}  // namespace c19
