// C18 - check-ups classify by their thresholds; statuses aggregate as a severity order.
// Engine E2: sensors feed evaluate(v) events, a watchdog feeds timeout() events and an
// aggregator combines report copies, in seeded interleavings on a simulated clock; the
// explicit event list is executed against the real check-ups and the statement's model.
#include <cfloat>
#include <memory>
#include <optional>
#include <queue>
#include "../sim/core/runner.hpp"
#include "../models/checkup.hpp"
#include "romea_core_common/diagnostic/CheckupEqualTo.hpp"
#include "romea_core_common/diagnostic/CheckupGreaterThan.hpp"
#include "romea_core_common/diagnostic/CheckupLowerThan.hpp"
#include "romea_core_common/diagnostic/CheckupReliability.hpp"
#include "romea_core_common/geodesy/WGS84Coordinates.hpp"

using namespace sim;
namespace rc = romea::core;

namespace {

struct CU {int kind; std::string name; double a, b; int initStatus = -1; std::string initMessage; int vtype = 0;};   // vtype: value type of the check-up template, 0 double, 1 float, 2 int   // initStatus >= 0: constructed with an initial Diagnostic

struct Ev
{
  int kind;               // 0 evaluate(i, v), 1 timeout(i), 2 aggregate(list of check-up indexes), 3 status list,
                          // 4 append synthetic reports (list = per report: number of diagnostics * 16 + number of info keys; i = seed)
  int i; double v;
  std::vector<int> list;  // kind 2: indexes (modulo the number of check-ups); kind 3: statuses 0..3
};

struct Plan {std::vector<CU> cus; std::vector<Ev> ev; int junk = 0;};

struct Subject
{
  int kind;
  int vtype = 0;
  std::unique_ptr<rc::Checkup<double>> c;
  std::unique_ptr<rc::Checkup<float>> cf;
  std::unique_ptr<rc::Checkup<int>> ci;
  std::unique_ptr<rc::CheckupReliability> r;
  rc::DiagnosticStatus evaluate(double v)
  {
    if (kind == model::Reliability) {return r->evaluate(v);}
    return vtype == 1 ? cf->evaluate((float)v) : (vtype == 2 ? ci->evaluate((int)v) : c->evaluate(v));
  }
  void timeout() {if (vtype == 1) {cf->timeout();} else if (vtype == 2) {ci->timeout();} else {c->timeout();}}
  rc::DiagnosticReport report() const
  {
    if (kind == model::Reliability) {return r->getReport();}
    return vtype == 1 ? rc::DiagnosticReport(cf->getReport()) : (vtype == 2 ? rc::DiagnosticReport(ci->getReport()) : rc::DiagnosticReport(c->getReport()));
  }
};

std::string rep3(const model::ReportModel & r)
{
  return std::string("(") + model::statusName(r.status) + ", \"" + r.message + "\", \"" + r.value + "\")";
}

Outcome statusAlgebra()
{
  // all 4^3 triples: commutative, associative, idempotent, equal to the maximum under OK<WARN<ERROR<STALE
  for (int a = 0; a < 4; ++a) {
    for (int b = 0; b < 4; ++b) {
      auto A = (rc::DiagnosticStatus)a, B = (rc::DiagnosticStatus)b;
      int ab = (int)rc::worse(A, B);
      if (ab != std::max(a, b)) {return Outcome::fail("algebra-not-max", fmt("worse(%s,%s)=%s", model::statusName(a), model::statusName(b), model::statusName(ab)));}
      if (ab != (int)rc::worse(B, A)) {return Outcome::fail("algebra-not-commutative", fmt("worse(%s,%s)", model::statusName(a), model::statusName(b)));}
      if (a == b && ab != a) {return Outcome::fail("algebra-not-idempotent", fmt("worse(%s,%s)", model::statusName(a), model::statusName(a)));}
      for (int cc = 0; cc < 4; ++cc) {
        auto C = (rc::DiagnosticStatus)cc;
        if (rc::worse(rc::worse(A, B), C) != rc::worse(A, rc::worse(B, C))) {
          return Outcome::fail("algebra-not-associative", fmt("(%s,%s,%s)", model::statusName(a), model::statusName(b), model::statusName(cc)));
        }
      }
    }
  }
  SIM_COUNT_N("status_triples_enumerated", 64);
  return Outcome::pass();
}

Outcome runPlan(const Plan & p, Ctx & c)
{
  {Outcome o = statusAlgebra(); if (!o.ok) {return o;}}
  const size_t n = p.cus.size();
  std::vector<Subject> subj(n); std::vector<model::CheckupModel> mod(n);
  for (size_t k = 0; k < n; ++k) {
    const CU & u = p.cus[k];
    subj[k].kind = u.kind; mod[k] = model::CheckupModel(u.kind, u.name, u.a, u.b);
    const bool init = u.initStatus >= 0 && u.kind != model::Reliability;
    rc::Diagnostic d0 = init ? rc::Diagnostic((rc::DiagnosticStatus)u.initStatus, u.initMessage) : rc::Diagnostic();
    if (init) {mod[k].rep.status = u.initStatus; mod[k].rep.message = u.initMessage; SIM_PROBE("constructed_with_initial_diagnostic");}
    subj[k].vtype = u.kind == model::Reliability ? 0 : u.vtype;
    if (subj[k].vtype == 1) {
      // the same templates on float: thresholds and values are exactly representable in float, so the verdicts are those of the model
      SIM_PROBE("checkup_on_float");
      float a = (float)u.a, b = (float)u.b;
      switch (u.kind) {
        case model::EqualTo: subj[k].cf.reset(init ? new rc::CheckupEqualTo<float>(u.name, a, b, d0) : new rc::CheckupEqualTo<float>(u.name, a, b)); break;
        case model::GreaterThan: subj[k].cf.reset(init ? new rc::CheckupGreaterThan<float>(u.name, a, b, d0) : new rc::CheckupGreaterThan<float>(u.name, a, b)); break;
        default: subj[k].cf.reset(init ? new rc::CheckupLowerThan<float>(u.name, a, b, d0) : new rc::CheckupLowerThan<float>(u.name, a, b)); break;
      }
      continue;
    }
    if (subj[k].vtype == 2) {
      SIM_PROBE("checkup_on_int");
      int a = (int)u.a, b = (int)u.b;
      switch (u.kind) {
        case model::EqualTo: subj[k].ci.reset(init ? new rc::CheckupEqualTo<int>(u.name, a, b, d0) : new rc::CheckupEqualTo<int>(u.name, a, b)); break;
        case model::GreaterThan: subj[k].ci.reset(init ? new rc::CheckupGreaterThan<int>(u.name, a, b, d0) : new rc::CheckupGreaterThan<int>(u.name, a, b)); break;
        default: subj[k].ci.reset(init ? new rc::CheckupLowerThan<int>(u.name, a, b, d0) : new rc::CheckupLowerThan<int>(u.name, a, b)); break;
      }
      continue;
    }
    switch (u.kind) {
      case model::EqualTo: subj[k].c.reset(init ? new rc::CheckupEqualTo<double>(u.name, u.a, u.b, d0) : new rc::CheckupEqualTo<double>(u.name, u.a, u.b)); break;
      case model::GreaterThan: subj[k].c.reset(init ? new rc::CheckupGreaterThan<double>(u.name, u.a, u.b, d0) : new rc::CheckupGreaterThan<double>(u.name, u.a, u.b)); break;
      case model::LowerThan: subj[k].c.reset(init ? new rc::CheckupLowerThan<double>(u.name, u.a, u.b, d0) : new rc::CheckupLowerThan<double>(u.name, u.a, u.b)); break;
      default: subj[k].r.reset(new rc::CheckupReliability(u.name, u.a, u.b));
    }
  }
  std::vector<bool> evaluated(n, false);
  size_t no = 0;

  // compare one real report with the model (inexact thresholds: either rounding is accepted)
  auto checkOne = [&](size_t k, const char * when, const model::ReportModel * alt) -> Outcome {
      rc::DiagnosticReport r = subj[k].report();
      if (r.diagnostics.size() != 1 || r.info.size() != 1 || r.info.begin()->first != p.cus[k].name) {
        return Outcome::fail("report-shape", fmt("event #%zu (%s): check-up %zu '%s' has %zu diagnostics, %zu info entries",
                 no, when, k, p.cus[k].name.c_str(), r.diagnostics.size(), r.info.size()));
      }
      model::ReportModel got; got.status = (int)r.diagnostics.front().status; got.message = r.diagnostics.front().message;
      got.value = r.info.begin()->second;
      c.log((uint64_t)got.status); c.logs(got.message); c.logs(got.value);
      if (got == mod[k].rep || (alt && got == *alt)) {if (alt && got == *alt) {mod[k].rep = *alt;} return Outcome::pass();}
      const char * cls = got.status != mod[k].rep.status ? "stored-status-mismatch" :
        (got.message != mod[k].rep.message ? "message-mismatch" : "info-mismatch");
      return Outcome::fail(cls, fmt("event #%zu (%s): %s '%s' (a=%.17g, b=%.17g) reports ", no, when,
               model::kindName(p.cus[k].kind), p.cus[k].name.c_str(), p.cus[k].a, p.cus[k].b) + rep3(got) + ", expected " +
               rep3(mod[k].rep));
    };

  for (size_t k = 0; k < n; ++k) {Outcome o = checkOne(k, "initially", nullptr); if (!o.ok) {return o;}}

  for (const Ev & e : p.ev) {
    ++no; ++c.steps;
    if ((e.kind == 0 || e.kind == 1 || e.kind == 2) && n == 0) {continue;}
    if (e.kind == 0) {
      size_t k = (size_t)e.i % n; const CU & u = p.cus[k];
      // the value as the check-up's value type holds it (a shrunk or hand-written plan may carry any double)
      double ev = e.v;
      if (u.kind != model::Reliability && u.vtype == 1) {ev = (double)(float)e.v; if (!std::isfinite(ev)) {ev = 0;}}
      if (u.kind != model::Reliability && u.vtype == 2) {ev = std::trunc(std::max(-2000000000.0, std::min(2000000000.0, e.v)));}
      SIM_COUNT("op.evaluate");
      model::Verdict exact = model::classify(u.kind, ev, u.a, u.b), rounded = model::classifyRounded(u.kind, ev, u.a, u.b);
      if (u.kind != model::Reliability) {
        double lo = u.a - u.b, hi = u.a + u.b;
        bool usesLo = u.kind != model::LowerThan, usesHi = u.kind != model::GreaterThan;
        if ((usesLo && ev == lo) || (usesHi && ev == hi)) {SIM_PROBE("value_exactly_on_threshold");}
        if ((usesLo && (ev == std::nextafter(lo, INFINITY) || ev == std::nextafter(lo, -INFINITY))) ||
          (usesHi && (ev == std::nextafter(hi, INFINITY) || ev == std::nextafter(hi, -INFINITY)))) {SIM_PROBE("value_one_ulp_from_threshold");}
        if (u.b == 0) {SIM_PROBE("zero_epsilon");}
      } else {
        if (ev == u.a || ev == u.b) {SIM_PROBE("reliability_exactly_on_threshold");}
      }
      if (ev == 0 && std::signbit(ev)) {SIM_PROBE("negative_zero_value");}
      if (ev != 0 && std::fabs(ev) < DBL_MIN) {SIM_PROBE("denormal_value");}
      if (std::fabs(ev) > 1e300) {SIM_PROBE("huge_value");}
      if (mod[k].rep.status == model::STALE && evaluated[k]) {SIM_PROBE("evaluate_after_timeout");}
      int ret = (int)subj[k].evaluate(ev);
      int before = mod[k].rep.status;
      mod[k].evaluate(ev);
      if (u.kind != model::Reliability && u.vtype == 2) {mod[k].rep.value = std::to_string((long long)ev);}   // an int prints as an integer, whatever its size
      if (before != mod[k].rep.status && evaluated[k]) {SIM_PROBE("status_changed_by_evaluation");}
      evaluated[k] = true;
      c.log((uint64_t)ret);
      c.note(fmt("#%zu evaluate %s '%s' (a=%.17g b=%.17g) value %.17g -> %s (model %s)", no, model::kindName(u.kind),
        u.name.c_str(), u.a, u.b, ev, model::statusName(ret), model::statusName(exact.status)));
      model::ReportModel alt = mod[k].rep; bool inexact = false;
      if (rounded.status != exact.status || std::string(rounded.suffix) != exact.suffix) {
        inexact = true; alt.status = rounded.status; alt.message = u.name + rounded.suffix; SIM_COUNT("inexact_threshold_either_accepted");
      }
      if (ret != exact.status && !(inexact && ret == rounded.status)) {
        return Outcome::fail("returned-status-mismatch", fmt("event #%zu: %s '%s' (a=%.17g, b=%.17g) evaluate(%.17g) returned %s, "
                 "the statement gives %s", no, model::kindName(u.kind), u.name.c_str(), u.a, u.b, ev, model::statusName(ret),
                 model::statusName(exact.status)));
      }
      Outcome o = checkOne(k, "after evaluate", inexact ? &alt : nullptr); if (!o.ok) {return o;}
      if (ret != mod[k].rep.status) {
        return Outcome::fail("returned-status-differs-from-report", fmt("event #%zu: evaluate(%.17g) returned %s but the report stores %s",
                 no, ev, model::statusName(ret), model::statusName(mod[k].rep.status)));
      }
      for (size_t j = 0; j < n; ++j) {if (j != k) {Outcome oj = checkOne(j, "bystander after evaluate", nullptr); if (!oj.ok) {return oj;}}}
    } else if (e.kind == 1) {
      size_t k = (size_t)e.i % n;
      if (p.cus[k].kind == model::Reliability) {SIM_COUNT("op.timeout_skipped_no_such_method"); continue;}
      SIM_COUNT("fault.watchdog_timeout.fired");
      if (!evaluated[k]) {SIM_PROBE("timeout_before_any_evaluation");}
      if (mod[k].rep.status == model::STALE && evaluated[k]) {SIM_PROBE("timeout_twice_in_a_row");}
      subj[k].timeout(); mod[k].timeout();
      c.note(fmt("#%zu timeout '%s'", no, p.cus[k].name.c_str()));
      for (size_t j = 0; j < n; ++j) {Outcome oj = checkOne(j, j == k ? "after timeout" : "bystander after timeout", nullptr); if (!oj.ok) {return oj;}}
    } else if (e.kind == 2) {
      if (e.list.empty()) {continue;}
      SIM_COUNT("op.aggregate");
      rc::DiagnosticReport total;
      std::vector<std::pair<int, std::string>> wantDiag; std::map<std::string, std::string> wantInfo;
      // e.i != 0: the combined report starts as a header that carries info entries but no diagnostic yet
      if (e.i != 0) {
        rc::setReportInfo(total, "header", 42); wantInfo["header"] = "42";
        if (e.i == 2) {const std::string & k0 = p.cus[(size_t)e.list[0] % n].name; rc::setReportInfo(total, k0, std::string("from-header")); wantInfo[k0] = "from-header";}
        std::optional<double> none; rc::setReportInfo(total, "optional", none); wantInfo["optional"] = "";
        // an info value of another library type, printed through its own operator<< (which sets stream flags)
        {rc::WGS84Coordinates fix = rc::makeWGS84Coordinates(0.5, 0.25); rc::setReportInfo(total, "fix", fix); std::ostringstream os; os << fix; wantInfo["fix"] = os.str();}
        SIM_PROBE("aggregate_into_header_report_with_info_only");
      }
      int wantWorst = 0; bool wantAll = true;
      for (int raw : e.list) {
        size_t k = (size_t)raw % n;
        total += subj[k].report();
        wantDiag.emplace_back(mod[k].rep.status, mod[k].rep.message);
        if (wantInfo.count(p.cus[k].name)) {SIM_PROBE("aggregate_duplicate_info_key");} else {wantInfo[p.cus[k].name] = mod[k].rep.value;}
        wantWorst = model::worse(wantWorst, mod[k].rep.status); wantAll = wantAll && mod[k].rep.status == model::OK;
      }
      if (e.list.size() >= 20) {SIM_PROBE("aggregate_of_20_reports");}
      c.note(fmt("#%zu aggregate %zu reports", no, e.list.size()));
      if (total.diagnostics.size() != wantDiag.size()) {
        return Outcome::fail("aggregate-diagnostics-mismatch", fmt("event #%zu: %zu reports appended, %zu diagnostics", no, wantDiag.size(), total.diagnostics.size()));
      }
      size_t pos = 0;
      for (auto & d : total.diagnostics) {
        c.log((uint64_t)d.status);
        if ((int)d.status != wantDiag[pos].first || d.message != wantDiag[pos].second) {
          return Outcome::fail("aggregate-diagnostics-mismatch", fmt("event #%zu: diagnostic %zu of the combined report is (%s, \"%s\"), "
                   "expected (%s, \"%s\")", no, pos, model::statusName((int)d.status), d.message.c_str(),
                   model::statusName(wantDiag[pos].first), wantDiag[pos].second.c_str()));
        }
        ++pos;
      }
      if (total.info != wantInfo) {
        return Outcome::fail("aggregate-info-mismatch", fmt("event #%zu: combined info has %zu entries, expected %zu (first key wins)", no, total.info.size(), wantInfo.size()));
      }
      int worst = (int)rc::worseStatus(total.diagnostics); bool all = rc::allOK(total.diagnostics);
      c.log((uint64_t)worst); c.log(all);
      if (worst != wantWorst) {return Outcome::fail("worst-status-mismatch", fmt("event #%zu: worseStatus=%s, maximum is %s", no, model::statusName(worst), model::statusName(wantWorst)));}
      if (all != wantAll) {return Outcome::fail("allok-mismatch", fmt("event #%zu: allOK=%d, expected %d", no, all, wantAll));}
    } else if (e.kind == 4) {
      // arbitrary reports (0..5 diagnostics, 0..3 info keys from a small key set, so that keys collide)
      if (e.list.empty()) {continue;}
      SIM_COUNT("op.append_synthetic_reports");
      Rng rr((uint64_t)e.i * 7919 + 13);
      rc::DiagnosticReport total; std::vector<std::pair<int, std::string>> wantDiag; std::map<std::string, std::string> wantInfo;
      size_t nrep = 0;
      for (int code : e.list) {
        rc::DiagnosticReport r; int nd = (code / 16) % 6, ni = code % 4;
        for (int k = 0; k < nd; ++k) {int st = (int)rr.below(4); std::string msg = fmt("m%llu", (unsigned long long)rr.below(1000)); r.diagnostics.emplace_back((rc::DiagnosticStatus)st, msg); wantDiag.emplace_back(st, msg);}
        for (int k = 0; k < ni; ++k) {std::string key = fmt("k%llu", (unsigned long long)rr.below(5)), val = fmt("v%llu", (unsigned long long)rr.below(1000)); if (!r.info.count(key)) {r.info[key] = val; if (!wantInfo.count(key)) {wantInfo[key] = val;} else {SIM_PROBE("synthetic_info_key_collision");}}}
        if (nd == 0 && ni > 0) {SIM_PROBE("synthetic_report_with_info_but_no_diagnostic");}
        if (nd == 0 && ni == 0) {SIM_PROBE("synthetic_empty_report");}
        // every other report is appended as a temporary (function results are appended that way), the others as named
        // objects, which must come out of it unchanged
        if (nrep & 1) {total += std::move(r); SIM_PROBE("report_appended_as_rvalue");} else {
          total += r;
          if ((int)r.diagnostics.size() != nd) {return Outcome::fail("append-changed-its-source", fmt("event #%zu: a named report lost diagnostics by being appended to another", no));}
        }
        ++nrep;
      }
      if ((e.i & 3) == 3 && !total.diagnostics.empty()) {
        // the combined report appended to itself: its diagnostics twice, its info unchanged
        total += total; SIM_PROBE("report_appended_to_itself");
        std::vector<std::pair<int, std::string>> twice = wantDiag; twice.insert(twice.end(), wantDiag.begin(), wantDiag.end()); wantDiag.swap(twice);
      }
      c.note(fmt("#%zu append %zu synthetic reports", no, nrep));
      size_t pos = 0; bool okd = total.diagnostics.size() == wantDiag.size();
      for (auto & d : total.diagnostics) {if (okd && ((int)d.status != wantDiag[pos].first || d.message != wantDiag[pos].second)) {okd = false;} ++pos; c.log((uint64_t)d.status);}
      if (!okd) {return Outcome::fail("aggregate-diagnostics-mismatch", fmt("event #%zu: appending %zu synthetic reports gives %zu diagnostics, expected %zu in order", no, nrep, total.diagnostics.size(), wantDiag.size()));}
      if (total.info != wantInfo) {return Outcome::fail("aggregate-info-mismatch", fmt("event #%zu: appending %zu synthetic reports: merged info has %zu entries, expected %zu (first key wins)", no, nrep, total.info.size(), wantInfo.size()));}
      if (!wantDiag.empty()) {
        int ww = 0; bool aa = true; for (auto & d : wantDiag) {ww = std::max(ww, d.first); aa = aa && d.first == 0;}
        if ((int)rc::worseStatus(total.diagnostics) != ww) {return Outcome::fail("worst-status-mismatch", fmt("event #%zu: worseStatus of %zu appended diagnostics", no, wantDiag.size()));}
        if (rc::allOK(total.diagnostics) != aa) {return Outcome::fail("allok-mismatch", fmt("event #%zu: allOK of %zu appended diagnostics", no, wantDiag.size()));}
      }
    } else {
      if (e.list.empty()) {continue;}
      SIM_COUNT("op.status_list");
      std::list<rc::Diagnostic> l; int wantWorst = 0; bool wantAll = true;
      for (int s : e.list) {int st = ((s % 4) + 4) % 4; l.emplace_back((rc::DiagnosticStatus)st, "m"); wantWorst = std::max(wantWorst, st); wantAll = wantAll && st == 0;}
      int worst = (int)rc::worseStatus(l); bool all = rc::allOK(l);
      c.log((uint64_t)worst); c.log(all);
      c.note(fmt("#%zu status list of %zu entries -> worst %s allOK %d", no, e.list.size(), model::statusName(worst), all));
      if (wantAll) {SIM_PROBE("list_all_ok");}
      if (worst != wantWorst) {return Outcome::fail("worst-status-mismatch", fmt("event #%zu: worseStatus of a list of %zu = %s, maximum is %s", no, e.list.size(), model::statusName(worst), model::statusName(wantWorst)));}
      if (all != wantAll) {return Outcome::fail("allok-mismatch", fmt("event #%zu: allOK=%d on a list whose maximum is %s", no, all, model::statusName(wantWorst)));}
    }
  }
  return Outcome::pass();
}

}  // namespace

struct PropC18
{
  using Plan = ::Plan;
  static constexpr const char * id = "C18";
  static constexpr const char * engine = "E2 timesim";
  uint64_t master = 1; std::string tier; uint64_t nRandom = 0;
  std::vector<Plan> scriptedPlans;

  double hangSeconds() const {return 30;}
  double wallCapSeconds() const {return tier == "quick" ? 100 : 840;}
  void configure(const std::string & t, uint64_t seed)
  {
    tier = t; uint64_t x = seed; master = splitmix64(x) ^ hashStr(id);
    buildScripted();
    nRandom = tier == "quick" ? 150000 : 8000000;
  }
  uint64_t totalRuns() const {return scriptedPlans.size() + nRandom;}

  static Ev E(int i, double v) {return Ev {0, i, v, {}};}
  static Ev T(int i) {return Ev {1, i, 0, {}};}
  static Ev A(std::vector<int> l) {return Ev {2, 0, 0, std::move(l)};}
  static Ev S(std::vector<int> l) {return Ev {3, 0, 0, std::move(l)};}

  void buildScripted()
  {
    scriptedPlans.clear();
    Plan p;
    p.cus = {{model::EqualTo, "speed", 10, 0.5}, {model::GreaterThan, "battery", 12, 0.25}, {model::LowerThan, "temp", 80, 2},
      {model::Reliability, "fix", 0.25, 0.75}, {model::EqualTo, "speed", 1, 0}};
    p.ev = {T(0), E(0, 9.5), E(0, std::nextafter(9.5, 0)), E(0, 10.5), E(0, std::nextafter(10.5, 11)), T(0), T(0), E(0, 10),
      E(1, 11.75), E(1, std::nextafter(11.75, 12)), E(2, 82), E(2, std::nextafter(82, 0)), E(3, 0.25), E(3, 0.75),
      E(3, std::nextafter(0.25, 0)), E(3, std::nextafter(0.75, 0)), E(4, 1), E(4, -0.0), E(4, 4.9e-324), E(4, 1.7e308),
      A({0, 1, 2, 3, 4}), A({4, 0}), Ev {2, 2, 0, {1, 0, 3}}, Ev {2, 1, 0, {2}}, A({0, 1, 2, 3, 4, 0, 1, 2, 3, 4, 0, 1, 2, 3, 4, 0, 1, 2, 3, 4}), S({0, 0, 0}), S({0, 1, 3, 2}), T(3)};
    scriptedPlans.push_back(p);
  }

  // target and epsilon as multiples of one power of two: target +- epsilon is exact
  static void drawThresholds(Rng & r, int kind, double & a, double & b, int vtype = 0)
  {
    if (kind != model::Reliability && vtype == 1) {
      // float: mantissas below 2^11 on one power-of-two grid, so that a, b and a +- b are exact in float
      double q = std::ldexp(1.0, (int)r.range(-20, 20));
      a = (double)r.range(-1024, 1024) * q; b = r.chance(0.2) ? 0.0 : (double)r.range(0, 1024) * q; return;
    }
    if (kind != model::Reliability && vtype == 2) {a = (double)r.range(-1000, 1000); b = r.chance(0.2) ? 0.0 : (double)r.range(0, 50); return;}
    if (kind == model::Reliability) {
      a = std::floor(r.unit() * 64) / 64; b = std::min(1.0, a + std::floor(r.unit() * 32) / 64);
      // thresholds are compared directly, no arithmetic: decimal fractions and arbitrary doubles (not representable in
      // any narrower type) are as good as dyadic ones
      switch (r.below(4)) {
        case 0: a = (double)r.range(0, 10) / 10; b = std::min(1.0, a + (double)r.range(0, 5) / 10); break;
        case 1: a = (double)r.range(0, 100) / 100; b = std::min(1.0, a + (double)r.range(0, 50) / 100); break;
        case 2: a = r.unit(); b = a + (1 - a) * r.unit(); break;
        default: break;
      }
      if (r.chance(0.1)) {b = a;}
      if (r.chance(0.15)) {std::swap(a, b);}   // low above high: 'ERROR below the low threshold' still comes first
      return;
    }
    int e;
    switch (r.below(6)) {
      case 0: e = (int)r.range(980, 1000); break;     // huge
      case 1: e = (int)r.range(-1074, -1040); break;  // denormal quantum
      default: e = (int)r.range(-20, 20);
    }
    double q = std::ldexp(1.0, e);
    int64_t m = r.range(-(1 << 20), 1 << 20), k = r.chance(0.2) ? 0 : r.range(0, 1 << 20);
    if (r.chance(0.3)) {m = r.range(-16, 16); k = r.range(0, 8);}
    a = (double)m * q; b = (double)k * q;
  }
  static double drawValue(Rng & r, const CU & u)
  {
    if (u.kind != model::Reliability && u.vtype == 2) {
      double t = r.chance(0.5) ? u.a - u.b : u.a + u.b;
      if (r.chance(0.1)) {return (double)r.range(-2000000000LL, 2000000000LL);}   // many digits
      return r.chance(0.7) ? t + (double)r.range(-2, 2) : (double)r.range(-3000, 3000);
    }
    if (u.kind != model::Reliability && u.vtype == 1) {
      float t = (float)(r.chance(0.5) ? u.a - u.b : u.a + u.b); float v;
      switch (r.below(8)) {
        case 0: v = t; break;
        case 1: v = std::nextafterf(t, INFINITY); break;
        case 2: v = std::nextafterf(t, -INFINITY); break;
        case 3: v = (float)u.a; break;
        case 4: v = std::nextafterf(std::nextafterf(t, INFINITY), INFINITY); break;
        case 5: v = std::nextafterf(std::nextafterf(t, -INFINITY), -INFINITY); break;
        case 6: v = (float)(r.normal() * std::ldexp(1.0, (int)r.range(-30, 30))); break;
        default: v = t + (float)((std::fabs(u.b) + std::fabs(t) * 1e-3 + 1e-30) * r.uniform(-2, 2)); break;
      }
      if (!std::isfinite(v)) {v = t;}
      return (double)v;
    }
    double lo = u.kind == model::Reliability ? u.a : u.a - u.b, hi = u.kind == model::Reliability ? u.b : u.a + u.b;
    double thr = r.chance(0.5) ? lo : hi;
    switch (r.below(14)) {
      case 0: return thr;
      case 1: return std::nextafter(thr, INFINITY);
      case 2: return std::nextafter(thr, -INFINITY);
      case 3: return u.a;
      case 4: return lo + (hi - lo) * r.unit();
      case 5: return thr + (std::fabs(thr) + 1) * r.uniform(-2, 2);
      case 6: return r.chance(0.5) ? 0.0 : -0.0;
      case 7: return (r.chance(0.5) ? 1 : -1) * 4.9406564584124654e-324 * (double)r.range(1, 1000);
      case 8: return (r.chance(0.5) ? 1 : -1) * DBL_MAX;
      case 9: return r.normal() * std::ldexp(1.0, (int)r.range(-60, 60));
      case 10: return std::nextafter(std::nextafter(thr, INFINITY), INFINITY);
      case 11: return std::nextafter(std::nextafter(thr, -INFINITY), -INFINITY);
      default: return thr + (hi - lo + std::fabs(thr) * 1e-3) * r.uniform(-1, 1);
    }
  }

  Plan randomPlan(uint64_t runseed) const
  {
    Rng r(runseed);
    Plan p;
    static const char * names[] = {"speed", "battery", "temp", "fix", "load", "gps"};
    int n = (int)r.range(1, 6);
    for (int k = 0; k < n; ++k) {
      CU u; u.kind = (int)r.below(4); u.name = r.chance(0.8) ? std::string(names[k]) : std::string(r.pick(names));
      if (u.kind != model::Reliability && r.chance(0.3)) {u.vtype = r.chance(0.5) ? 1 : 2;}
      drawThresholds(r, u.kind, u.a, u.b, u.vtype);
      if (r.chance(0.2)) {u.initStatus = (int)r.below(4); u.initMessage = r.chance(0.5) ? std::string("no data received from ") + u.name : std::string("booting");}
      p.cus.push_back(u);
    }
    // ---- discrete-event world: one sensor per check-up, a watchdog, an aggregator
    struct Q {double t; uint64_t seq; int type; int i;};
    struct Cmp {bool operator()(const Q & a, const Q & b) const {return a.t != b.t ? a.t > b.t : a.seq > b.seq;}};
    std::priority_queue<Q, std::vector<Q>, Cmp> q; uint64_t seq = 0;
    auto push = [&](double t, int type, int i) {q.push(Q {t, (seq++ << 8) | r.below(256), type, i});};
    std::vector<double> period(n), lastEval(n, -1e9), staleAfter(n);
    double pSilence = r.chance(0.6) ? r.uniform(0.02, 0.2) : 0;
    double wd = r.logUniform(0.05, 2), ag = r.logUniform(0.1, 5);
    if (pSilence > 0) {SIM_COUNT("fault.sensor_silence.configured");}
    SIM_COUNT("fault.watchdog_timeout.configured");
    for (int k = 0; k < n; ++k) {period[k] = r.logUniform(0.01, 1); staleAfter[k] = period[k] * r.uniform(1.5, 4); push(r.unit() * period[k], 0, k);}
    push(r.unit() * wd, 1, 0); push(r.unit() * ag, 2, 0);
    int target = (int)(r.chance(0.2) ? r.range(1, 10) : r.range(10, 150));
    if (r.chance(0.2)) {p.ev.push_back(T((int)r.below((uint64_t)n)));}
    while (!q.empty() && (int)p.ev.size() < target) {
      Q e = q.top(); q.pop();
      if (e.type == 0) {
        p.ev.push_back(E(e.i, drawValue(r, p.cus[(size_t)e.i]))); lastEval[(size_t)e.i] = e.t;
        double next = period[(size_t)e.i];
        if (r.chance(pSilence)) {next *= r.uniform(3, 20); SIM_COUNT("fault.sensor_silence.fired");}
        push(e.t + next, 0, e.i);
      } else if (e.type == 1) {
        for (int k = 0; k < n; ++k) {if (e.t - lastEval[(size_t)k] > staleAfter[(size_t)k]) {p.ev.push_back(T(k));}}
        push(e.t + wd, 1, 0);
      } else {
        int len = (int)(r.chance(0.15) ? 20 : r.range(1, r.chance(0.5) ? n : 20));
        std::vector<int> l; for (int k = 0; k < len; ++k) {l.push_back((int)r.below((uint64_t)n));}
        p.ev.push_back(A(l)); p.ev.back().i = r.chance(0.3) ? (int)r.range(1, 2) : 0;
        if (r.chance(0.3)) {
          std::vector<int> s; int sl = (int)r.range(1, 20); int bias = (int)r.below(3);
          for (int k = 0; k < sl; ++k) {s.push_back(bias == 0 ? 0 : (int)r.below(bias == 1 ? 2 : 4));}
          p.ev.push_back(S(s));
        }
        if (r.chance(0.3)) {
          std::vector<int> codes; int nr = (int)r.range(1, 20);
          for (int k = 0; k < nr; ++k) {codes.push_back((int)r.below(6) * 16 + (int)r.below(4));}
          p.ev.push_back(Ev {4, (int)r.below(1000000), 0, codes});
        }
        push(e.t + ag, 2, 0);
      }
    }
    return p;
  }

  // heap contents are an input of the run like any other: every fresh allocation is filled with a byte chosen by the plan
  Plan generate(uint64_t index) const {Plan p = generate0(index); p.junk = (int)(mix64(master ^ 0x6a756e6bULL, index) % 5); return p;}
  Outcome execute(const Plan & p, Ctx & c) const {sim::junkHeap(p.junk); return execute0(p, c);}
  Json toJson(const Plan & p) const {Json j = toJson0(p); j.set("heap_fill_index", p.junk); return j;}
  Plan fromJson(const Json & j) const {Plan p = fromJson0(j); if (j.has("heap_fill_index")) {p.junk = (int)j["heap_fill_index"].i();} return p;}
  std::vector<Plan> simpler(const Plan & p) const {std::vector<Plan> out = simpler0(p); if (p.junk != 0) {Plan q = p; q.junk = 0; out.push_back(q);} return out;}
  Plan generate0(uint64_t index) const
  {
    if (index < scriptedPlans.size()) {return scriptedPlans[index];}
    return randomPlan(mix64(master, index - scriptedPlans.size()));
  }
  Outcome execute0(const Plan & p, Ctx & c) const {return runPlan(p, c);}

  Json toJson0(const Plan & p) const
  {
    Json j = Json::object(); Json cu = Json::array();
    for (auto & u : p.cus) {
      Json o = Json::object(); o.set("kind", model::kindName(u.kind)).set("kind_id", u.kind).set("name", u.name);
      o.set(u.kind == model::Reliability ? "low" : "target", u.a).set(u.kind == model::Reliability ? "high" : "epsilon", u.b);
      if (u.initStatus >= 0) {o.set("initial_status", u.initStatus).set("initial_message", u.initMessage);}
      if (u.kind != model::Reliability) {o.set("value_type", u.vtype == 1 ? "float" : (u.vtype == 2 ? "int" : "double")).set("value_type_id", u.vtype);}
      cu.push(o);
    }
    j.set("checkups", cu);
    Json ev = Json::array();
    for (auto & e : p.ev) {
      Json o = Json::object();
      if (e.kind == 0) {o.set("ev", "evaluate").set("checkup", e.i).set("value", e.v);} else if (e.kind == 1) {
        o.set("ev", "timeout").set("checkup", e.i);
      } else if (e.kind == 4) {o.set("ev", "append_synthetic_reports").set("seed", e.i).set("list", Json::arrayOf(e.list));
      } else {o.set("ev", e.kind == 2 ? "aggregate" : "status_list").set("list", Json::arrayOf(e.list)); if (e.kind == 2 && e.i) {o.set("header_mode", e.i);}}
      ev.push(o);
    }
    j.set("events", ev);
    return j;
  }
  Plan fromJson0(const Json & j) const
  {
    Plan p;
    for (auto & o : j["checkups"].a()) {
      CU u; u.kind = (int)o["kind_id"].i(); u.name = o["name"].s();
      u.a = u.kind == model::Reliability ? o["low"].d() : o["target"].d(); u.b = u.kind == model::Reliability ? o["high"].d() : o["epsilon"].d();
      if (o.has("initial_status")) {u.initStatus = (int)o["initial_status"].i(); u.initMessage = o["initial_message"].s();}
      if (o.has("value_type_id")) {u.vtype = (int)o["value_type_id"].i();}
      p.cus.push_back(u);
    }
    for (auto & o : j["events"].a()) {
      const std::string & k = o["ev"].s();
      if (k == "evaluate") {p.ev.push_back(E((int)o["checkup"].i(), o["value"].d()));} else if (k == "timeout") {p.ev.push_back(T((int)o["checkup"].i()));} else if (k == "append_synthetic_reports") {
        std::vector<int> l; for (auto & x : o["list"].a()) {l.push_back((int)x.i());}
        p.ev.push_back(Ev {4, (int)o["seed"].i(), 0, l});
      } else {
        std::vector<int> l; for (auto & x : o["list"].a()) {l.push_back((int)x.i());}
        p.ev.push_back(k == "aggregate" ? A(l) : S(l)); if (o.has("header_mode")) {p.ev.back().i = (int)o["header_mode"].i();}
      }
    }
    return p;
  }

  std::vector<Plan> simpler0(const Plan & p) const
  {
    std::vector<Plan> out;
    removalCandidates(p.ev, [&](std::vector<Ev> v) {Plan q = p; q.ev = std::move(v); out.push_back(q);});
    // drop a check-up nobody refers to any more (indexes are re-mapped)
    for (size_t k = 0; k < p.cus.size() && p.cus.size() > 1; ++k) {
      bool used = false;
      for (auto & e : p.ev) {
        if (e.kind <= 1 && (size_t)e.i % p.cus.size() == k) {used = true;}
        if (e.kind == 2) {for (int x : e.list) {if ((size_t)x % p.cus.size() == k) {used = true;}}}
      }
      if (used) {continue;}
      Plan q = p; q.cus.erase(q.cus.begin() + (long)k);
      auto remap = [&](int x) {size_t old = (size_t)x % p.cus.size(); return (int)(old > k ? old - 1 : old);};
      for (auto & e : q.ev) {if (e.kind <= 1) {e.i = remap(e.i);} if (e.kind == 2) {for (auto & x : e.list) {x = remap(x);}}}
      out.push_back(q);
    }
    for (size_t k = 0; k < p.ev.size(); ++k) {
      const Ev & e = p.ev[k];
      if (e.kind >= 2 && e.list.size() > 1) {
        removalCandidates(e.list, [&](std::vector<int> v) {if (!v.empty()) {Plan q = p; q.ev[k].list = std::move(v); out.push_back(q);}});
      }
    }
    for (size_t k = 0; k < p.cus.size(); ++k) {
      if (p.cus[k].name.size() > 1) {Plan q = p; q.cus[k].name = std::string(1, (char)('a' + k)); out.push_back(q);}
      if (p.cus[k].initStatus >= 0) {Plan q = p; q.cus[k].initStatus = -1; q.cus[k].initMessage.clear(); out.push_back(q);}
    }
    return out;
  }

  uint64_t planSize(const Plan & p) const {return p.ev.size();}
  uint64_t shapeHash(const Plan & p) const
  {
    uint64_t h = 7;
    for (auto & u : p.cus) {h = mix64(h, (uint64_t)u.kind);}
    for (auto & e : p.ev) {
      uint64_t cls = (uint64_t)e.kind * 64 + (e.kind <= 1 ? (uint64_t)e.i : e.list.size());
      if (e.kind == 0 && !p.cus.empty()) {
        const CU & u = p.cus[(size_t)e.i % p.cus.size()];
        model::Verdict v = model::classify(u.kind, e.v, u.a, u.b);
        cls = cls * 8 + (uint64_t)v.status * 2 + (v.suffix[5] == 'l');
      }
      h = mix64(h, cls);
    }
    return h;
  }
  // non-trivial: a timeout on a check-up that had been evaluated, followed by another evaluation of it
  bool nontrivial(const Plan & p) const
  {
    if (p.cus.empty()) {return false;}
    std::vector<int> st(p.cus.size(), 0);
    for (auto & e : p.ev) {
      if (e.kind > 1) {continue;}
      size_t k = (size_t)e.i % p.cus.size();
      if (e.kind == 0) {if (st[k] == 2) {return true;} st[k] = 1;} else if (st[k] == 1 && p.cus[k].kind != model::Reliability) {st[k] = 2;}
    }
    return false;
  }
  std::string signature(const Plan & p, const Outcome & o) const
  {
    std::string s = o.cls + "|";
    for (auto & u : p.cus) {s += model::kindName(u.kind) + 7; s += ",";}
    s += "|";
    for (auto & e : p.ev) {s += "ETASR"[e.kind];}
    return s;
  }
  std::vector<uint64_t> sampleIndexes() const
  {
    uint64_t s = scriptedPlans.size(); std::vector<uint64_t> v = {0};
    for (uint64_t k = 0, n = 0; k < 4000 && n < 3; ++k) {
      Plan p = randomPlan(mix64(master, k));
      if (p.ev.size() >= 5 && p.ev.size() <= 14 && nontrivial(p)) {v.push_back(s + k); ++n;}
    }
    return v;
  }
  std::vector<std::string> probeNames() const
  {
    return {"value_exactly_on_threshold", "value_one_ulp_from_threshold", "zero_epsilon", "reliability_exactly_on_threshold",
      "negative_zero_value", "denormal_value", "huge_value", "evaluate_after_timeout", "status_changed_by_evaluation",
      "timeout_before_any_evaluation", "timeout_twice_in_a_row", "aggregate_duplicate_info_key", "aggregate_of_20_reports", "list_all_ok", "constructed_with_initial_diagnostic", "aggregate_into_header_report_with_info_only",
      "synthetic_info_key_collision", "synthetic_report_with_info_but_no_diagnostic", "synthetic_empty_report"};
  }
  Json describe() const
  {
    Json d = Json::object();
    d.set("rule",
      "Each run draws 1..6 check-ups (EqualTo / GreaterThan / LowerThan on double, and in 30 % of the cases on float or int; Reliability; names may coincide) with "
      "thresholds on a power-of-two grid (so that target +- epsilon is exact in the value type; including zero epsilon, huge and denormal "
      "scales; reliability thresholds also as tenths, hundredths and arbitrary doubles) and runs a discrete-event world: one sensor per check-up (with silences), a watchdog that times out silent "
      "check-ups, an aggregator that appends up to 20 report copies (to an empty or a header-only report; synthetic reports alternately as named objects and as rvalues). Values are placed on each threshold, one and two ulps "
      "either side, on the target, between and beyond the thresholds, +-0, denormal, +-DBL_MAX and random. All observables "
      "of all check-ups are compared with the model after every event; the 4^3 status triples are enumerated at the start of "
      "every run. distinct = distinct hash of (check-up kinds, per event: kind, subject, verdict class / list length); "
      "non-trivial = a timeout on an already evaluated check-up followed by another evaluation of it.");
    d.set("simulated_time_unit", "event order only: the library takes no time argument here; the simulated clock orders sensor, watchdog and aggregator events in the generating world");
    Json ex = Json::array(); ex.push("all 64 (status,status,status) triples for worse(): max, commutative, associative, idempotent - in every run");
    d.set("exhaustive", false); d.set("exhaustive_subspaces", ex);
    Json comp = Json::object();
    comp.set("real_code", "Checkup.hpp, CheckupEqualTo/GreaterThan/LowerThan.hpp, CheckupReliability.cpp, Diagnostic.cpp, DiagnosticStatus.cpp, DiagnosticReport.cpp (g++ -O3, asserts on)");
    comp.set("stubs", "sensors, watchdog and aggregator are simulated parties; reference model compares in binary128");
    comp.set("scheduler", "event queue of the generating world, seeded tie-break; each library call is one atomic event (intra-call interleavings: C19)");
    comp.set("faults", "watchdog timeout() at arbitrary points of the evaluation history, sensor silences");
    d.set("components", comp);
    Json as = Json::array();
    as.push("finite values only; epsilon >= 0; thresholds exactly representable (if a hand-written replay uses inexact ones, either rounding of the threshold is accepted)");
    as.push("verdict texts (' is OK.', ' is too low.', ' is too high.', ' is uncertain.', ' is high.', ' timeout.') and the default stream print of the value are taken as the observable format, as the repository's tests do");
    as.push("CheckupReliability has no timeout(); timeout events addressed to it are skipped");
    d.set("assumptions", as);
    return d;
  }
};

int main(int argc, char ** argv) {return simMain<PropC18>(argc, argv);}
