// C15 - scrolling grid: histories of translations and writes on a WrappableGrid
// checked after every op against a dense sliding-window model.
// Single owner, no clock, no failure modes: the scheduler and fault dimensions
// of the simulation are empty here; what is used is workload + reference model
// + minimised replay, with a bijective seed sweep over the bounded space the
// property names.
#include <memory>
#include "../sim/core/runner.hpp"
#include "romea_core_common/containers/grid/WrappableGrid.hpp"

using namespace sim;

namespace {

struct Op
{
  int kind;        // 0 = write, 1 = translate, 2 = setValue (fill every cell), 3 = translate with the default empty value T(),
                   // 4 = continue on a copy of the grid, 5 / 6 = the grid is copy- / move-assigned from another grid of shape a[]
                   // whose cells hold the tags value, value+1, ...
  int a[3];        // write: logical index; translate: offset
  int64_t value;   // write: tag; translate: empty value
};

struct Plan
{
  int junk = 0;   // index of the byte every fresh heap allocation is filled with (sim::junkHeap)
  int dim = 2;
  int n[3] = {1, 1, 1};
  bool prefill = true;
  int cellType = 0;   // 0 int64_t, 1 uint8_t (a one-byte cell), 2 std::string (a cell type with real move semantics)
  std::vector<Op> ops;
};

constexpr int64_t kPristine = INT64_MIN;  // model-only marker: never written nor blanked

struct Model
{
  int dim; int n[3]; std::vector<int64_t> cell; long long off[3];
  Model(int d, const int * nn) : dim(d)
  {
    n[0] = nn[0]; n[1] = nn[1]; n[2] = d == 3 ? nn[2] : 1;
    cell.assign((size_t)(n[0] * n[1] * n[2]), kPristine);
    off[0] = off[1] = off[2] = 0;
  }
  int64_t & at(int x, int y, int z) {return cell[(size_t)((z * n[1] + y) * n[0] + x)];}
  // the statement: the window slides by d; new[i] = old[i + d] if i + d is still inside,
  // otherwise the empty value of this translation
  void translate(const int * d, int64_t empty)
  {
    std::vector<int64_t> old = cell;
    auto oldAt = [&](int x, int y, int z) {return old[(size_t)((z * n[1] + y) * n[0] + x)];};
    for (int z = 0; z < n[2]; ++z) {
      for (int y = 0; y < n[1]; ++y) {
        for (int x = 0; x < n[0]; ++x) {
          long long sx = (long long)x + d[0], sy = (long long)y + d[1],
            sz = (long long)z + (dim == 3 ? d[2] : 0);
          bool in = sx >= 0 && sx < n[0] && sy >= 0 && sy < n[1] && sz >= 0 && sz < n[2];
          at(x, y, z) = in ? oldAt((int)sx, (int)sy, (int)sz) : empty;
        }
      }
    }
    for (int k = 0; k < dim; ++k) {off[k] = (((off[k] + d[k]) % n[k]) + n[k]) % n[k];}
  }
};

// model tags (int64) are encoded into the grid's cell type; tag 0 is the default-constructed value T()
template<class T> struct Enc;
template<> struct Enc<int64_t> {static int64_t of(int64_t t) {return t;} static uint64_t h(int64_t v) {return (uint64_t)v;}};
template<> struct Enc<uint8_t>
{
  static uint8_t of(int64_t t) {return t == 0 ? 0 : (uint8_t)(sim::mix64((uint64_t)t, 77) % 255 + 1);}
  static uint64_t h(uint8_t v) {return v;}
};
template<> struct Enc<std::string>
{
  static std::string of(int64_t t) {return t == 0 ? std::string() : "cell value number " + std::to_string(t);}   // longer than the small-string buffer
  static uint64_t h(const std::string & v) {return sim::hashStr(v);}
};

template<size_t DIM, class T = int64_t>
Outcome runGrid(const Plan & p, Ctx & c)
{
  using Grid = romea::core::WrappableGrid<T, DIM>;
  using CI = typename Grid::CellIndexes;
  using CO = typename Grid::CellIndexesOffset;
  CI nn;
  for (size_t k = 0; k < DIM; ++k) {nn[(long)k] = (size_t)p.n[k];}
  std::unique_ptr<Grid> gridPtr(new Grid(nn));
#define grid (*gridPtr)
  Model m((int)DIM, p.n);

  auto idx = [&](int x, int y, int z) {
      CI i; i[0] = (size_t)x; i[1] = (size_t)y; if (DIM == 3) {i[(long)(DIM - 1)] = (size_t)z;}
      return i;
    };
  // in half of the runs the read-back is made on a copy of the grid, so that reading every cell after every op does not
  // refresh whatever an op left inside the subject (a cached index, a lazily applied offset)
  const bool observeOnCopy = (p.junk & 1) != 0;
  auto observe = [&](const char * after, size_t opNo) -> Outcome {
      std::unique_ptr<Grid> probe(observeOnCopy ? new Grid(*gridPtr) : nullptr);
      Grid & seen = observeOnCopy ? *probe : *gridPtr;
      if (observeOnCopy) {SIM_PROBE("cells_read_back_from_a_copy_of_the_grid");}
      for (int z = 0; z < m.n[2]; ++z) {
        for (int y = 0; y < m.n[1]; ++y) {
          for (int x = 0; x < m.n[0]; ++x) {
            // alternate between the const and the non-const accessor
            const Grid & cgrid = seen;
            T got = ((x + y + z + (int)opNo) & 1) ? cgrid(idx(x, y, z)) : seen(idx(x, y, z));
            c.log(Enc<T>::h(got));
            int64_t want = m.at(x, y, z);
            if (want != kPristine && !(got == Enc<T>::of(want))) {
              return Outcome::fail("cell-mismatch", fmt("after op #%zu (%s) cell (%d,%d,%d) does not read the value the sliding-window "
                       "model says (model tag %lld, read value hash %llx)", opNo, after, x, y, z,
                       (long long)want, (unsigned long long)Enc<T>::h(got)));
            }
          }
        }
      }
      const CI & off = seen.getIndexOffsetAlongAxes();
      for (size_t k = 0; k < DIM; ++k) {
        c.log(off[(long)k]);
        if ((long long)off[(long)k] != m.off[k]) {
          return Outcome::fail("offset-mismatch", fmt("after op #%zu (%s) reported offset along "
                   "axis %zu is %llu, accumulated offset modulo %d is %lld", opNo, after, k,
                   (unsigned long long)off[(long)k], m.n[k], m.off[k]));
        }
      }
      return Outcome::pass();
    };

  if (p.prefill) {
    int64_t tag = 1;
    for (int z = 0; z < m.n[2]; ++z) {
      for (int y = 0; y < m.n[1]; ++y) {
        for (int x = 0; x < m.n[0]; ++x) {grid(idx(x, y, z)) = Enc<T>::of(tag); m.at(x, y, z) = tag; ++tag;}
      }
    }
  }
  {Outcome o = observe("initial", 0); if (!o.ok) {return o;}}
  int translations = 0; bool wrapped = false;
  for (size_t k = 0; k < p.ops.size(); ++k) {
    const Op & op = p.ops[k];
    ++c.steps;
    if (op.kind == 0) {
      int x = op.a[0] % m.n[0], y = op.a[1] % m.n[1], z = DIM == 3 ? op.a[2] % m.n[2] : 0;
      grid(idx(x, y, z)) = Enc<T>::of(op.value); m.at(x, y, z) = op.value;
      SIM_COUNT("op.write");
      if (translations) {SIM_PROBE("write_after_translate");}
      if (c.record) {c.note(fmt("#%zu write (%d,%d,%d) := %lld", k + 1, x, y, z, (long long)op.value));}
      Outcome o = observe("write", k + 1); if (!o.ok) {return o;}
    } else if (op.kind == 4) {
      if (k & 1) {gridPtr.reset(new Grid(grid));} else {Grid tmp(grid); gridPtr.reset(new Grid(std::move(tmp))); SIM_PROBE("continue_on_a_moved_to_grid");}
      SIM_COUNT("op.copy"); if (translations) {SIM_PROBE("copy_after_translate");}
      if (c.record) {c.note(fmt("#%zu continue on a copy", k + 1));}
      Outcome o = observe("copy", k + 1); if (!o.ok) {return o;}
    } else if (op.kind == 5 || op.kind == 6) {
      // the subject is overwritten by assignment from another grid, possibly of another shape (same or different cell count)
      int n2[3] = {1, 1, 1}; CI nn2;
      for (size_t a = 0; a < DIM; ++a) {n2[a] = 1 + std::abs(op.a[a]) % 8; nn2[(long)a] = (size_t)n2[a];}
      std::unique_ptr<Grid> other(new Grid(nn2));
      Model m2((int)DIM, n2);
      int64_t tag = op.value;
      auto idx2 = [&](int x, int y, int z) {CI i; i[0] = (size_t)x; i[1] = (size_t)y; if (DIM == 3) {i[(long)(DIM - 1)] = (size_t)z;} return i;};
      for (int z = 0; z < m2.n[2]; ++z) {for (int y = 0; y < m2.n[1]; ++y) {for (int x = 0; x < m2.n[0]; ++x) {(*other)(idx2(x, y, z)) = Enc<T>::of(tag); m2.at(x, y, z) = tag; ++tag;}}}
      bool sameCount = m2.cell.size() == m.cell.size(), sameShape = m2.n[0] == m.n[0] && m2.n[1] == m.n[1] && m2.n[2] == m.n[2];
      if (sameCount && !sameShape) {SIM_PROBE("assigned_from_grid_of_same_cell_count_other_shape");}
      if (sameShape) {SIM_PROBE("assigned_from_grid_of_same_shape");}
      if (translations) {SIM_PROBE("assigned_over_a_translated_grid");}
      if (op.kind == 5) {grid = *other;} else {grid = std::move(*other);}
      m = m2; wrapped = false;
      SIM_COUNT(op.kind == 5 ? "op.copy_assign" : "op.move_assign");
      if (c.record) {c.note(fmt("#%zu %s-assigned from a %dx%dx%d grid", k + 1, op.kind == 5 ? "copy" : "move", n2[0], n2[1], n2[2]));}
      Outcome o = observe("assignment", k + 1); if (!o.ok) {return o;}
      if (op.kind == 5) {
        // the source of a copy assignment keeps its cells
        const Grid & co = *other;
        for (int z = 0; z < m2.n[2]; ++z) {for (int y = 0; y < m2.n[1]; ++y) {for (int x = 0; x < m2.n[0]; ++x) {
              if (!(co(idx2(x, y, z)) == Enc<T>::of(m2.at(x, y, z)))) {return Outcome::fail("assignment-changed-its-source", fmt("after op #%zu the source of the copy assignment no longer reads its own values", k + 1));}
            }}}
      }
    } else if (op.kind == 2) {
      grid.setValue(Enc<T>::of(op.value)); std::fill(m.cell.begin(), m.cell.end(), op.value);
      SIM_COUNT("op.setValue");
      if (translations) {SIM_PROBE("set_value_after_translate");}
      if (c.record) {c.note(fmt("#%zu setValue(%lld)", k + 1, (long long)op.value));}
      Outcome o = observe("setValue", k + 1); if (!o.ok) {return o;}
    } else {
      CO d;
      bool big = false, neg = false, any = false;
      for (size_t a = 0; a < DIM; ++a) {
        d[(long)a] = op.a[a];
        if (std::abs(op.a[a]) >= m.n[a] && op.a[a]) {big = true;}
        if (op.a[a] < 0) {neg = true;}
        if (op.a[a]) {any = true;}
      }
      SIM_COUNT("op.translate");
      if (translations >= 1 && any) {SIM_PROBE("second_or_later_translation");}
      if (big) {SIM_PROBE("translate_by_at_least_grid_size");}
      if (neg && wrapped) {SIM_PROBE("negative_offset_after_previous_wrap");}
      if (DIM == 3 && op.a[2] < 0 && -op.a[2] < m.n[2]) {SIM_PROBE("negative_z_with_survivors");}
      if (!any) {SIM_PROBE("zero_translation");}
      if (op.kind == 3) {grid.translate(d); m.translate(op.a, 0); SIM_PROBE("translate_with_default_empty_value");} else {
        grid.translate(d, Enc<T>::of(op.value)); m.translate(op.a, op.value);
      }
      if (any) {++translations;}
      for (size_t a = 0; a < DIM; ++a) {if (m.off[a]) {wrapped = true;}}
      if (c.record) {
        c.note(fmt("#%zu translate (%d,%d,%d) empty=%lld", k + 1, op.a[0], op.a[1],
          DIM == 3 ? op.a[2] : 0, (long long)op.value));
      }
      Outcome o = observe("translate", k + 1); if (!o.ok) {return o;}
    }
  }
  return Outcome::pass();
#undef grid
}

// ---------------------------------------------------------------------------
struct Phase
{
  std::string name; int dim; int depth; uint64_t count; bool exhaustive; uint64_t spaceSize;
};

int axisChoices(int n) {return 2 * (n + 1) + 1;}  // offsets in [-(n+1), n+1]

}  // namespace

struct PropC15
{
  using Plan = ::Plan;
  static constexpr const char * id = "C15";
  static constexpr const char * engine = "E1 seqsim";

  uint64_t master = 1;
  std::string tier;
  std::vector<Phase> phases;
  std::vector<Plan> scriptedPlans;

  double hangSeconds() const {return 20;}
  double wallCapSeconds() const {return tier == "quick" ? 100 : 840;}

  static uint64_t spaceSize(int dim, int depth)
  {
    int maxN = dim == 2 ? 4 : 3;
    uint64_t total = 0;
    int n[3] = {1, 1, 1};
    for (n[0] = 1; n[0] <= maxN; ++n[0]) {
      for (n[1] = 1; n[1] <= maxN; ++n[1]) {
        for (n[2] = 1; n[2] <= (dim == 3 ? maxN : 1); ++n[2]) {
          uint64_t per = 1;
          for (int a = 0; a < dim; ++a) {per *= (uint64_t)axisChoices(n[a]);}
          uint64_t s = 1;
          for (int k = 0; k < depth; ++k) {s *= per;}
          total += s;
        }
      }
    }
    return total;
  }

  void configure(const std::string & t, uint64_t seed)
  {
    tier = t;
    uint64_t x = seed; master = splitmix64(x) ^ hashStr(id);
    buildScripted();
    phases.clear();
    phases.push_back({"scripted", 0, 0, (uint64_t)scriptedPlans.size(), false, 0});
    bool q = tier == "quick";
    for (int depth = 1; depth <= 3; ++depth) {
      uint64_t s = spaceSize(2, depth);
      phases.push_back({fmt("sweep-2D-depth%d", depth), 2, depth, s, true, s});
    }
    for (int depth = 1; depth <= 2; ++depth) {
      uint64_t s = spaceSize(3, depth);
      phases.push_back({fmt("sweep-3D-depth%d", depth), 3, depth, s, true, s});
    }
    {
      uint64_t s = spaceSize(3, 3);
      // quick: a seeded sample of the 1.7e9 plans; thorough: the whole space in index order (as far as the
      // wall-clock cap allows: runs that did not fit are reported as budget_truncated_runs)
      if (q) {phases.push_back({"sample-3D-depth3", 3, 3, 4000000ULL, false, s});}
      phases.push_back({"random-histories", 0, 0, q ? 300000ULL : 20000000ULL, false, 0});
      if (!q) {phases.push_back({"sweep-3D-depth3", 3, 3, s, true, s});}
    }
  }

  uint64_t totalRuns() const
  {
    uint64_t t = 0; for (auto & p : phases) {t += p.count;} return t;
  }

  // mixed-radix decoding of an index of the bounded space: a bijection
  static Plan decodeBounded(int dim, int depth, uint64_t index)
  {
    int maxN = dim == 2 ? 4 : 3;
    Plan p; p.dim = dim; p.prefill = true;
    int n[3] = {1, 1, 1};
    for (n[0] = 1; n[0] <= maxN; ++n[0]) {
      for (n[1] = 1; n[1] <= maxN; ++n[1]) {
        for (n[2] = 1; n[2] <= (dim == 3 ? maxN : 1); ++n[2]) {
          uint64_t per = 1;
          for (int a = 0; a < dim; ++a) {per *= (uint64_t)axisChoices(n[a]);}
          uint64_t s = 1;
          for (int k = 0; k < depth; ++k) {s *= per;}
          if (index >= s) {index -= s; continue;}
          p.n[0] = n[0]; p.n[1] = n[1]; p.n[2] = n[2];
          for (int k = 0; k < depth; ++k) {
            Op op; op.kind = 1; op.a[0] = op.a[1] = op.a[2] = 0;
            for (int a = 0; a < dim; ++a) {
              int ch = axisChoices(n[a]);
              op.a[a] = (int)(index % (uint64_t)ch) - (n[a] + 1);
              index /= (uint64_t)ch;
            }
            op.value = -(int64_t)(k + 1);
            p.ops.push_back(op);
          }
          return p;
        }
      }
    }
    return p;
  }

  Plan randomPlan(uint64_t runseed) const
  {
    Rng r(runseed);
    Plan p;
    p.dim = r.chance(0.5) ? 2 : 3;
    int maxN = (int)r.range(1, 8);
    for (int a = 0; a < 3; ++a) {p.n[a] = a < p.dim ? (int)r.range(1, maxN) : 1;}
    p.prefill = r.chance(0.8);
    p.cellType = r.chance(0.4) ? (int)r.range(1, 2) : 0;
    int len = (int)r.range(1, r.chance(0.2) ? 50 : 12);
    double pWrite = r.pick({0.0, 0.2, 0.5, 0.7});
    int offsetStyle = (int)r.below(4);  // 0 small, 1 up to n, 2 up to 2n, 3 mixed
    int64_t tag = 1000, empty = -1;
    int nTrans = 0;
    for (int k = 0; k < len; ++k) {
      Op op; op.a[0] = op.a[1] = op.a[2] = 0;
      if (r.chance(pWrite)) {
        op.kind = 0;
        for (int a = 0; a < p.dim; ++a) {op.a[a] = (int)r.below((uint64_t)p.n[a]);}
        op.value = tag++;
      } else if (r.chance(0.03)) {
        op.kind = 2; op.value = tag++;
      } else if (r.chance(0.03)) {
        op.kind = 4;
      } else if (r.chance(0.03)) {
        // assignment from another grid: a permutation of the current shape (same cell count), the same shape, or any shape
        op.kind = r.chance(0.5) ? 5 : 6; op.value = tag; tag += 600;
        int style = (int)r.below(3);
        for (int a = 0; a < p.dim; ++a) {op.a[a] = (style == 0 ? p.n[(a + 1) % p.dim] : (style == 1 ? p.n[a] : (int)r.range(1, 8))) - 1;}
      } else if (nTrans < 50) {
        op.kind = r.chance(0.1) ? 3 : 1; ++nTrans;
        for (int a = 0; a < p.dim; ++a) {
          int n = p.n[a];
          int style = offsetStyle == 3 ? (int)r.below(3) : offsetStyle;
          int lim = style == 0 ? 1 : (style == 1 ? n : 2 * n);
          op.a[a] = r.chance(0.25) ? 0 : (int)r.range(-lim, lim);
        }
        op.value = empty--;
      } else {continue;}
      p.ops.push_back(op);
    }
    return p;
  }

  void buildScripted()
  {
    scriptedPlans.clear();
    auto T = [](int x, int y, int z, int64_t e) {Op o; o.kind = 1; o.a[0] = x; o.a[1] = y; o.a[2] = z;
        o.value = e; return o;};
    auto Wr = [](int x, int y, int z, int64_t v) {Op o; o.kind = 0; o.a[0] = x; o.a[1] = y; o.a[2] = z;
        o.value = v; return o;};
    {Plan p; p.dim = 2; p.n[0] = 3; p.n[1] = 3; p.ops = {T(1, -1, 0, -1)}; scriptedPlans.push_back(p);}
    {Plan p; p.dim = 2; p.n[0] = 3; p.n[1] = 3; p.ops = {T(1, 0, 0, -1), T(1, 0, 0, -2)};
      scriptedPlans.push_back(p);}
    {Plan p; p.dim = 3; p.n[0] = 3; p.n[1] = 3; p.n[2] = 3; p.ops = {T(1, -1, 2, -1)};
      scriptedPlans.push_back(p);}
    {Plan p; p.dim = 3; p.n[0] = 3; p.n[1] = 3; p.n[2] = 3;
      p.ops = {T(0, 0, 1, -1), Wr(1, 1, 1, 500), T(0, 0, -1, -2), T(-1, 0, 0, -3), T(0, 0, 0, -4),
        T(4, -4, 3, -5)};
      scriptedPlans.push_back(p);}
  }

  // heap contents are an input of the run like any other: every fresh allocation is filled with a byte chosen by the plan
  Plan generate(uint64_t index) const {Plan p = generate0(index); p.junk = (int)(mix64(master ^ 0x6a756e6bULL, index) % 5); return p;}
  Outcome execute(const Plan & p, Ctx & c) const {sim::junkHeap(p.junk); return execute0(p, c);}
  Json toJson(const Plan & p) const {Json j = toJson0(p); j.set("heap_fill_index", p.junk); return j;}
  Plan fromJson(const Json & j) const {Plan p = fromJson0(j); if (j.has("heap_fill_index")) {p.junk = (int)j["heap_fill_index"].i();} return p;}
  std::vector<Plan> simpler(const Plan & p) const {std::vector<Plan> out = simpler0(p); if (p.junk != 0) {Plan q = p; q.junk = 0; out.push_back(q);} return out;}
  Plan generate0(uint64_t index) const
  {
    for (auto & ph : phases) {
      if (index >= ph.count) {index -= ph.count; continue;}
      if (ph.name == "scripted") {return scriptedPlans[index];}
      if (ph.exhaustive) {return decodeBounded(ph.dim, ph.depth, index);}
      if (ph.dim == 3) {
        // sampled part of the bounded space: a seeded draw of its index
        Rng r(mix64(master, index));
        return decodeBounded(3, 3, r.below(ph.spaceSize));
      }
      return randomPlan(mix64(master ^ 0x5151, index));
    }
    return Plan();
  }

  Outcome execute0(const Plan & p, Ctx & c) const
  {
    if (p.cellType == 1) {SIM_PROBE("one_byte_cell_type"); return p.dim == 2 ? runGrid<2, uint8_t>(p, c) : runGrid<3, uint8_t>(p, c);}
    if (p.cellType == 2) {SIM_PROBE("string_cell_type"); return p.dim == 2 ? runGrid<2, std::string>(p, c) : runGrid<3, std::string>(p, c);}
    return p.dim == 2 ? runGrid<2>(p, c) : runGrid<3>(p, c);
  }

  Json toJson0(const Plan & p) const
  {
    Json j = Json::object();
    j.set("dim", p.dim);
    Json n = Json::array(); for (int a = 0; a < p.dim; ++a) {n.push(p.n[a]);}
    j.set("cells_per_axis", n).set("prefill_distinct_tags", p.prefill).set("cell_type", p.cellType == 0 ? "int64_t" : (p.cellType == 1 ? "uint8_t" : "std::string")).set("cell_type_id", p.cellType);
    Json ops = Json::array();
    for (auto & o : p.ops) {
      Json e = Json::object();
      Json a = Json::array(); for (int k = 0; k < p.dim; ++k) {a.push(o.a[k]);}
      if (o.kind == 0) {e.set("op", "write").set("index", a).set("value", (long long)o.value);} else if (o.kind == 2) {
        e.set("op", "setValue").set("value", (long long)o.value);
      } else if (o.kind == 3) {e.set("op", "translate_default_empty").set("offset", a);} else if (o.kind == 4) {e.set("op", "continue_on_copy");} else if (o.kind == 5 || o.kind == 6) {
        Json sh = Json::array(); for (int k = 0; k < p.dim; ++k) {sh.push(1 + std::abs(o.a[k]) % 8);}
        e.set("op", o.kind == 5 ? "copy_assign_from" : "move_assign_from").set("source_cells_per_axis", sh).set("first_tag", (long long)o.value);
      } else {
        e.set("op", "translate").set("offset", a).set("empty", (long long)o.value);
      }
      ops.push(e);
    }
    j.set("ops", ops);
    return j;
  }
  Plan fromJson0(const Json & j) const
  {
    Plan p; p.dim = (int)j["dim"].i();
    for (int a = 0; a < p.dim; ++a) {p.n[a] = (int)j["cells_per_axis"][a].i();}
    p.prefill = j["prefill_distinct_tags"].b(); p.cellType = j.has("cell_type_id") ? (int)j["cell_type_id"].i() : 0;
    for (auto & e : j["ops"].a()) {
      Op o; o.a[0] = o.a[1] = o.a[2] = 0;
      if (e["op"].s() == "write") {
        o.kind = 0; o.value = e["value"].i();
        for (int a = 0; a < p.dim; ++a) {o.a[a] = (int)e["index"][a].i();}
      } else if (e["op"].s() == "setValue") {o.kind = 2; o.value = e["value"].i();} else if (e["op"].s() == "continue_on_copy") {o.kind = 4;} else if (e["op"].s() == "copy_assign_from" || e["op"].s() == "move_assign_from") {
        o.kind = e["op"].s() == "copy_assign_from" ? 5 : 6; o.value = e["first_tag"].i();
        for (int a = 0; a < p.dim; ++a) {o.a[a] = (int)e["source_cells_per_axis"][a].i() - 1;}
      } else {
        o.kind = e["op"].s() == "translate_default_empty" ? 3 : 1; o.value = o.kind == 1 ? e["empty"].i() : 0;
        for (int a = 0; a < p.dim; ++a) {o.a[a] = (int)e["offset"][a].i();}
      }
      p.ops.push_back(o);
    }
    return p;
  }

  std::vector<Plan> simpler0(const Plan & p) const
  {
    std::vector<Plan> out;
    removalCandidates(p.ops, [&](std::vector<Op> v) {Plan q = p; q.ops = std::move(v); out.push_back(q);});
    if (p.dim == 3) {
      // a 3D plan that never moves along z and has one z-layer is not simpler as 2D: keep dim
    }
    for (int a = 0; a < p.dim; ++a) {
      if (p.n[a] > 1) {Plan q = p; q.n[a] = p.n[a] - 1; out.push_back(q);}
    }
    if (p.cellType != 0) {Plan q = p; q.cellType = 0; out.push_back(q);}
    for (size_t k = 0; k < p.ops.size(); ++k) {
      if (p.ops[k].kind != 1 && p.ops[k].kind != 3) {continue;}
      for (int a = 0; a < p.dim; ++a) {
        int v = p.ops[k].a[a];
        if (v == 0) {continue;}
        Plan q = p; q.ops[k].a[a] = 0; out.push_back(q);
        if (std::abs(v) > 1) {Plan q2 = p; q2.ops[k].a[a] = v > 0 ? v - 1 : v + 1; out.push_back(q2);}
      }
    }
    return out;
  }

  uint64_t planSize(const Plan & p) const {return p.ops.size();}

  uint64_t shapeHash(const Plan & p) const
  {
    uint64_t h = mix64((uint64_t)p.dim, (uint64_t)(p.n[0] * 100 + p.n[1] * 10 + p.n[2]));
    h = mix64(h, (uint64_t)p.prefill + 2 * (uint64_t)p.cellType);
    for (auto & o : p.ops) {
      h = mix64(h, (uint64_t)(o.kind * 1000003 + (o.a[0] + 50) * 10201 + (o.a[1] + 50) * 101 +
        (o.a[2] + 50)));
    }
    return h;
  }
  bool nontrivial(const Plan & p) const
  {
    for (auto & o : p.ops) {if ((o.kind == 1 || o.kind == 3) && (o.a[0] || o.a[1] || o.a[2])) {return true;}}
    return false;
  }
  std::string signature(const Plan & p, const Outcome & o) const
  {
    std::string s = o.cls + "|" + std::to_string(p.dim) + "D" + (p.cellType == 1 ? "/byte" : (p.cellType == 2 ? "/string" : "")) + "|";
    for (auto & op : p.ops) {
      if (op.kind == 0) {s += "W";} else if (op.kind == 2) {s += "F";} else if (op.kind == 4) {s += "C";} else if (op.kind == 5 || op.kind == 6) {s += "A";} else {
        s += "T(";
        for (int a = 0; a < p.dim; ++a) {s += (op.a[a] > 0 ? "+" : (op.a[a] < 0 ? "-" : "0"));}
        s += ")";
      }
    }
    return s;
  }
  std::vector<uint64_t> sampleIndexes() const
  {
    std::vector<uint64_t> v = {1, 3};
    uint64_t acc = 0;
    for (auto & ph : phases) {if (ph.count) {v.push_back(acc + ph.count / 2);} acc += ph.count;}
    v.push_back(acc - 1);
    return v;
  }
  std::vector<std::string> probeNames() const
  {
    return {"write_after_translate", "second_or_later_translation", "translate_by_at_least_grid_size",
      "negative_offset_after_previous_wrap", "negative_z_with_survivors", "zero_translation", "set_value_after_translate", "translate_with_default_empty_value", "copy_after_translate", "one_byte_cell_type", "string_cell_type"};
  }
  Json describe() const
  {
    Json d = Json::object();
    d.set("rule",
      "A plan is (grid shape, cell type int64_t / uint8_t / std::string, prefill, list of write / translate / setValue / continue-on-a-copy / "
      "copy- and move-assignment-from-another-grid ops); after every op all cells and the "
      "reported offset are compared with a dense sliding-window model. Phases: scripted plans; the "
      "bounded space named by the property decoded bijectively from the run index (2D 1..4 cells/axis "
      "depth 1..3 and 3D 1..3 cells/axis depth 1..2 completely, 3D depth 3 as a seeded sample of its "
      "index space); seeded random histories (<= 50 translations, grids <= 8/axis, offsets up to 2n, "
      "interleaved writes). distinct = distinct hash of (shape, op kinds, indexes/offsets); "
      "non-trivial = contains at least one non-zero translation (every op is followed by a full "
      "read-back).");
    Json ph = Json::array(); Json ex = Json::array();
    for (auto & p : phases) {
      Json e = Json::object();
      e.set("name", p.name).set("runs", p.count).set("complete", p.exhaustive);
      if (p.spaceSize) {e.set("space_size", p.spaceSize).set("fraction_covered", (double)p.count / (double)p.spaceSize);}
      ph.push(e);
      if (p.exhaustive) {ex.push(p.name);}
    }
    d.set("phases", ph);
    d.set("exhaustive", false);
    d.set("exhaustive_subspaces", ex);
    Json comp = Json::object();
    comp.set("real_code", "romea::core::WrappableGrid<int64_t | uint8_t | std::string, 2|3> and Grid (headers from the repository, g++ -O2, asserts on)");
    comp.set("stubs", "none; the reference model is a dense array (new[i] = old[i+d] or empty)");
    comp.set("scheduler", "not used (single owner)").set("clock", "not used").set("faults",
      "none exist for this property; translations are the only state-changing events");
    d.set("components", comp);
    Json as = Json::array();
    as.push("orientation of a translation fixed by the repository's own tests: after translate(+1,-1) logical (0,1) holds what was at (1,0)");
    as.push("cells never written nor blanked (pristine) are not compared; all sweeps start from a grid prefilled with distinct tags");
    as.push("cell types: int64_t in the bounded sweeps; int64_t, uint8_t (one-byte cells) and std::string (cells with real move semantics) in the random histories; one-byte values are a hash of the model tag, so two different tags collide with probability 1/255");
    d.set("assumptions", as);
    return d;
  }
};

int main(int argc, char ** argv) {return simMain<PropC15>(argc, argv);}
