// C19 workload: the simulated threads. This translation unit is compiled WITH
// -fsanitize=thread instrumentation (like the repository sources it calls), so
// every access the library's inline/template code makes on behalf of a thread
// is seen by the simulator's race detector. Each thread writes only into its own
// pre-reserved record vector; main reads it after the join edge.
#include <cmath>
#include <cstdlib>
#include <memory>
#include <optional>

#include "C19_plan.hpp"
#include "../models/checkup.hpp"

#include "romea_core_common/concurrency/SharedVariable.hpp"
#include "romea_core_common/concurrency/SharedOptionalVariable.hpp"
#include "romea_core_common/monitoring/OnlineAverage.hpp"
#include "romea_core_common/monitoring/OnlineVariance.hpp"
#include "romea_core_common/monitoring/RateMonitoring.hpp"
#include "romea_core_common/diagnostic/CheckupEqualTo.hpp"
#include "romea_core_common/diagnostic/CheckupGreaterThan.hpp"
#include "romea_core_common/diagnostic/CheckupLowerThan.hpp"
#include "romea_core_common/diagnostic/CheckupReliability.hpp"
#include "romea_core_common/diagnostic/CheckupRate.hpp"

namespace rc = romea::core;

namespace c19 {
namespace {

struct Subject
{
  std::unique_ptr<rc::SharedVariable<Blob>> var;
  std::unique_ptr<rc::SharedVariable<bool>> flag;   // the one-byte instantiation (Plan::b != 0)
  std::unique_ptr<rc::SharedOptionalVariable<Blob>> opt;
  std::unique_ptr<rc::OnlineAverage> avg;      // also holds the OnlineVariance
  rc::OnlineVariance * variance = nullptr;
  std::unique_ptr<rc::Checkup<double>> chk;
  std::unique_ptr<rc::CheckupReliability> rel;
  std::unique_ptr<rc::RateMonitoring> rm;
  std::unique_ptr<rc::CheckupEqualToRate> crEq;
  std::unique_ptr<rc::CheckupGreaterThanRate> crGt;
};

struct RunCtx
{
  const Plan * plan; Subject * s; ExecResult * res; Subject * s2 = nullptr;   // s2: the neighbour's own object
};
struct TaskCtx
{
  RunCtx * run; int index; const Task * task; std::vector<Rec> * out; std::vector<uint64_t> * consumed;
  uint64_t lastSeq = 0; uint64_t ops = 0; bool recordAlways = false;
  double nbrV = 0; bool nbrHasV = false; uint64_t nbrSeq = 0; bool nbrHasSeq = false;   // what the neighbour last did to its own object
};

std::string gLabels[S_COUNT][O_COUNT];
bool gLabelsBuilt = false;
void buildLabels()
{
  if (gLabelsBuilt) {return;}
  for (int s = 0; s < S_COUNT; ++s) {
    for (int k = 0; k < O_COUNT; ++k) {gLabels[s][k] = std::string(scenarioName(s)) + "::" + opName(k);}
  }
  gLabelsBuilt = true;
}

void readReport(const rc::DiagnosticReport & r, Rec & rec)
{
  if (r.diagnostics.size() != 1 || r.info.size() != 1) {
    simrt::fail("report-inconsistent", "a report copy has " + std::to_string(r.diagnostics.size()) + " diagnostics and " +
      std::to_string(r.info.size()) + " info entries", "report-shape");
  }
  rec.status = (int)r.diagnostics.front().status; rec.msg = r.diagnostics.front().message; rec.val = r.info.begin()->second;
}

// long runs keep no history: each read is checked on the spot for internal consistency
void monitorReport(const Plan & p, const Rec & rec, int kind, const std::string & name = kName)
{
  bool ok = true; std::string why;
  if (rec.val.empty()) {
    ok = (rec.status == model::STALE && (rec.msg == name + " timeout." || rec.msg.empty())) ||
      (p.scenario >= S_CHECKUP_RATE_EQ && ((rec.status == model::STALE && rec.msg == name + "_rate timeout.") ||
      (rec.status == model::ERROR && rec.msg == "no data received from " + name)));
    why = "an empty value goes with STALE/timeout (or the initial report) only";
  } else if (p.scenario < S_CHECKUP_RATE_EQ) {
    double v = std::strtod(rec.val.c_str(), nullptr);
    model::Verdict vd = model::classify(kind, v, p.a, p.b);
    ok = rec.status == vd.status && rec.msg == name + vd.suffix;
    why = "status and message must be the verdict for the printed value";
  } else {
    double r = std::strtod(rec.val.c_str(), nullptr);
    model::Verdict lo = model::classify(kind, r * (1 - 2e-6), p.a, p.b), hi = model::classify(kind, r * (1 + 2e-6), p.a, p.b);
    if (lo.status == hi.status && std::string(lo.suffix) == hi.suffix) {ok = rec.status == lo.status && rec.msg == name + "_rate" + lo.suffix;}
    why = "status and message must be the verdict for the printed rate";
  }
  if (!ok) {
    simrt::fail("report-inconsistent", std::string("report copy (") + model::statusName(rec.status) + ", \"" + rec.msg + "\", \"" + rec.val +
      "\") mixes fields of different evaluations: " + why, "report-inconsistent|" + std::string(scenarioName(p.scenario)));
  }
}

void taskMain(void * arg)
{
  TaskCtx & tc = *(TaskCtx *)arg;
  const Task & task = *tc.task;
  const Plan & p = *tc.run->plan; Subject & s = task.role == 3 ? *tc.run->s2 : *tc.run->s;
  const int sc = p.scenario;
  const char * cls = scenarioName(sc);
  const int mkind = sc == S_CHECKUP_EQ ? model::EqualTo : sc == S_CHECKUP_GT ? model::GreaterThan : sc == S_CHECKUP_LT ? model::LowerThan :
    sc == S_RELIABILITY ? model::Reliability : sc == S_CHECKUP_RATE_EQ ? model::EqualTo : model::GreaterThan;
  for (uint32_t r = 0; r < task.repeat; ++r) {
    for (size_t i = 0; i < task.ops.size(); ++i) {
      Op op = task.ops[i];
      op.v += r * task.vStep; op.t += (int64_t)r * task.tStep; op.seq += (uint64_t)r * task.seqStep;
      Rec rec; rec.task = tc.index; rec.index = (int)(r * task.ops.size() + i); rec.kind = op.kind; rec.v = op.v; rec.t = op.t; rec.seq = op.seq;
      rec.inv = simrt::stamp();
      simrt::opBegin(gLabels[sc][op.kind].c_str(), cls);
      switch (op.kind) {
        case O_STORE:
          // op.v != 0 selects the operator form of the same operation (operator= / operator T())
          if (sc == S_SHARED_VAR && s.flag) {if (op.v != 0) {*s.flag = (op.seq & 1) != 0;} else {s.flag->store((op.seq & 1) != 0);} break;}
          if (op.seq & 2) {
            // a named object (lvalue argument) ...
            const Blob named = Blob::make(op.seq);
            if (sc == S_SHARED_VAR) {if (op.v != 0) {*s.var = named;} else {s.var->store(named);}} else {s.opt->store(named);}
          } else {
            // ... or a temporary (an rvalue overload, if there is one, binds here)
            if (sc == S_SHARED_VAR) {if (op.v != 0) {*s.var = Blob::make(op.seq);} else {s.var->store(Blob::make(op.seq));}} else {s.opt->store(Blob::make(op.seq));}
          }
          break;
        case O_LOAD: {
            if (s.flag) {bool b = op.v != 0 ? static_cast<bool>(*s.flag) : s.flag->load(); rec.outSeq = b ? 1 : 0; rec.flag = true; break;}
            Blob b = op.v != 0 ? static_cast<Blob>(*s.var) : s.var->load();
            if (!b.intact()) {simrt::fail("torn-read", "SharedVariable::load returned a half-written value (words belong to different stores)", "torn-read|SharedVariable");}
            rec.outSeq = b.w[0];
            break;
          }
        case O_CONSUME: {
            std::optional<Blob> b = s.opt->consume();
            rec.has = b.has_value();
            if (b) {
              if (!b->intact()) {simrt::fail("torn-read", "SharedOptionalVariable::consume returned a half-written value", "torn-read|SharedOptionalVariable");}
              rec.outSeq = b->w[0];
            }
            break;
          }
        case O_UPDATE: s.avg->update(op.v); break;
        case O_RESET: s.avg->reset(); break;
        case O_GET_AVG: rec.out = s.avg->getAverage(); break;
        case O_IS_AVAIL: rec.flag = s.avg->isAvailable(); break;
        case O_GET_VAR: rec.out = s.variance->getVariance(); break;
        case O_EVALUATE:
          rec.status = (int)(sc == S_RELIABILITY ? s.rel->evaluate(op.v) : s.chk->evaluate(op.v));
          break;
        case O_TIMEOUT: s.chk->timeout(); break;
        case O_GET_REPORT: {
            if (sc == S_RELIABILITY) {rc::DiagnosticReport rep = s.rel->getReport(); readReport(rep, rec);} else {
              rc::DiagnosticReport rep = s.chk->getReport(); readReport(rep, rec);
            }
            break;
          }
        case O_RM_UPDATE: rec.out = s.rm->update(rc::Duration(op.t)); break;
        case O_RM_TIMEOUT: rec.flag = s.rm->timeout(rc::Duration(op.t)); break;
        case O_RM_GET_RATE: rec.out = s.rm->getRate(); break;
        case O_CR_EVALUATE:
          rec.status = (int)(sc == S_CHECKUP_RATE_EQ ? s.crEq->evaluate(rc::Duration(op.t)) : s.crGt->evaluate(rc::Duration(op.t)));
          break;
        case O_CR_HEARTBEAT:
          rec.flag = sc == S_CHECKUP_RATE_EQ ? s.crEq->heartBeatCallback(rc::Duration(op.t)) : s.crGt->heartBeatCallback(rc::Duration(op.t));
          break;
        case O_CR_GET_REPORT: {
            rc::DiagnosticReport rep = sc == S_CHECKUP_RATE_EQ ? s.crEq->getReport() : s.crGt->getReport();
            readReport(rep, rec);
            break;
          }
        default: break;
      }
      simrt::opEnd();
      rec.ret = simrt::stamp();
      ++tc.ops;
      if (task.role == 3) {
        // the neighbour is the only thread that touches its object: every read must show exactly what it last did
        auto disturbed = [&](const std::string & what) {
            simrt::fail("neighbour-object-disturbed", "a second " + std::string(cls) + " object that only one thread uses: " + what +
              " (something is shared between distinct objects)", "neighbour-object-disturbed|" + std::string(cls));
          };
        switch (op.kind) {
          case O_EVALUATE: tc.nbrV = op.v; tc.nbrHasV = true; break;
          case O_TIMEOUT: tc.nbrHasV = false; break;
          case O_GET_REPORT:
            monitorReport(p, rec, mkind, kNeighbourName);
            if (tc.nbrHasV && (rec.val.empty() || !(std::fabs(std::strtod(rec.val.c_str(), nullptr) - tc.nbrV) <= 1e-4 * std::max(1.0, std::fabs(tc.nbrV))))) {
              disturbed("its report shows the value \"" + rec.val + "\" right after it evaluated " + std::to_string(tc.nbrV));
            }
            break;
          case O_CR_GET_REPORT: monitorReport(p, rec, mkind, kNeighbourName); break;
          case O_STORE: tc.nbrSeq = op.seq; tc.nbrHasSeq = true; break;
          case O_LOAD: if (!s.flag && tc.nbrHasSeq && rec.outSeq != tc.nbrSeq) {disturbed("load() returned #" + std::to_string(rec.outSeq) + " after store(#" + std::to_string(tc.nbrSeq) + ")");} break;
          case O_CONSUME:
            if (tc.nbrHasSeq != rec.has || (rec.has && rec.outSeq != tc.nbrSeq)) {disturbed("consume() did not return exactly the value just stored");}
            tc.nbrHasSeq = false; break;
          default: break;
        }
        continue;
      }
      if (!p.longRun || tc.recordAlways) {tc.out->push_back(rec); continue;}
      // ---- O(1) monitors of the long runs
      switch (op.kind) {
        case O_LOAD:
          if (!s.flag && rec.outSeq < tc.lastSeq) {
            simrt::fail("stale-read", "a reader saw store #" + std::to_string(rec.outSeq) + " after it had already seen #" +
              std::to_string(tc.lastSeq) + " of the single writer", "stale-read|SharedVariable");
          }
          if (!s.flag) {tc.lastSeq = rec.outSeq;}
          break;
        case O_CONSUME: if (rec.has) {tc.consumed->push_back(rec.outSeq);} break;
        case O_GET_AVG:
          if (!std::isnan(rec.out) && std::fabs(rec.out * 2 - std::nearbyint(rec.out * 2)) > 1e-6) {
            simrt::fail("average-inconsistent", "getAverage() returned " + std::to_string(rec.out) + ", which is not the mean of a run of consecutive integers",
              "average-inconsistent|" + std::string(cls));
          }
          break;
        case O_GET_REPORT: case O_CR_GET_REPORT: monitorReport(p, rec, mkind); break;
        default: break;
      }
    }
  }
}

}  // namespace

ExecResult runScenario(const Plan & p, bool recordTrace)
{
  buildLabels();
  ExecResult res;
  simrt::Config cfg;
  cfg.seed = p.sched.seed; cfg.policy = p.sched.policy; cfg.pctDepth = p.sched.pctDepth; cfg.pctSteps = p.sched.pctSteps;
  cfg.sliceMean = p.sched.sliceMean; cfg.yieldShift = p.sched.yieldShift;
  cfg.useTrace = p.sched.useTrace; cfg.traceIn = p.sched.trace.data(); cfg.traceLen = p.sched.trace.size();
  cfg.recordTrace = recordTrace;
  size_t nTasks = std::min<size_t>(p.tasks.size(), simrt::kMaxFibers - 1);
  res.hist.resize(nTasks); res.consumed.resize(nTasks);

  simrt::begin(cfg);
  auto build = [&](const std::string & name) {
      Subject * s = new Subject();
      switch (p.scenario) {
        // p.a != 0 selects the other constructor: default-constructed variable then store(), optional born with a value
        case S_SHARED_VAR:
          if (p.b != 0) {s->flag.reset(new rc::SharedVariable<bool>(false)); break;}
          if (p.a != 0) {s->var.reset(new rc::SharedVariable<Blob>()); s->var->store(Blob::make(0));} else {s->var.reset(new rc::SharedVariable<Blob>(Blob::make(0)));}
          break;
        case S_SHARED_OPT:
          if (p.a != 0) {s->opt.reset(new rc::SharedOptionalVariable<Blob>(Blob::make(kInitialOptionalSeq)));} else {s->opt.reset(new rc::SharedOptionalVariable<Blob>());}
          break;
        case S_ONLINE_AVG: s->avg.reset(new rc::OnlineAverage(1.0, (size_t)p.W)); break;
        case S_ONLINE_VAR: s->variance = new rc::OnlineVariance(1.0, (size_t)p.W); s->avg.reset(s->variance); break;
        case S_CHECKUP_EQ: s->chk.reset(new rc::CheckupEqualTo<double>(name, p.a, p.b)); break;
        case S_CHECKUP_GT: s->chk.reset(new rc::CheckupGreaterThan<double>(name, p.a, p.b)); break;
        case S_CHECKUP_LT: s->chk.reset(new rc::CheckupLowerThan<double>(name, p.a, p.b)); break;
        case S_RELIABILITY: s->rel.reset(new rc::CheckupReliability(name, p.a, p.b)); break;
        case S_RATE_MON: s->rm.reset(new rc::RateMonitoring(p.a)); break;
        case S_CHECKUP_RATE_EQ: s->crEq.reset(new rc::CheckupEqualToRate(name, p.a, p.b)); break;
        default: s->crGt.reset(new rc::CheckupGreaterThanRate(name, p.a, p.b)); break;
      }
      return s;
    };
  Subject * s = build(kName);
  bool hasNeighbour = false; for (auto & t : p.tasks) {if (t.role == 3) {hasNeighbour = true;}}
  Subject * s2 = hasNeighbour ? build(kNeighbourName) : nullptr;
  RunCtx run {&p, s, &res, s2};
  std::vector<TaskCtx> tcs(nTasks);
  static const char * roles[] = {"writer", "reader", "watchdog", "neighbour"};
  for (size_t k = 0; k < nTasks; ++k) {
    tcs[k].run = &run; tcs[k].index = (int)k; tcs[k].task = &p.tasks[k]; tcs[k].out = &res.hist[k]; tcs[k].consumed = &res.consumed[k];
    if (!p.longRun) {res.hist[k].reserve(p.tasks[k].ops.size() * p.tasks[k].repeat + 1);} else {res.consumed[k].reserve(1024);}
    simrt::spawn(taskMain, &tcs[k], roles[std::min(3, std::max(0, p.tasks[k].role))]);
  }
  simrt::runAll();
  // after the join: the main context observes the final state once more. Every call has returned, so whatever
  // sequential order explains the history, these observations come last in it.
  Task finalTask; finalTask.role = 1;
  TaskCtx finalCtx;
  if (!simrt::failed()) {
    auto add = [&](int kind) {Op o; o.kind = kind; finalTask.ops.push_back(o);};
    switch (p.scenario) {
      case S_SHARED_VAR: add(O_LOAD); break;
      case S_SHARED_OPT: add(O_CONSUME); add(O_CONSUME); break;
      case S_ONLINE_AVG: add(O_GET_AVG); add(O_IS_AVAIL); break;
      case S_ONLINE_VAR: add(O_GET_AVG); add(O_IS_AVAIL); add(O_GET_VAR); break;
      case S_RATE_MON: add(O_RM_GET_RATE); break;
      case S_CHECKUP_RATE_EQ: case S_CHECKUP_RATE_GT: add(O_CR_GET_REPORT); break;
      default: add(O_GET_REPORT);
    }
    res.hist.emplace_back(); res.consumed.emplace_back(); res.finalTask = (int)nTasks;
    res.hist.back().reserve(4);
    finalCtx.run = &run; finalCtx.index = (int)nTasks; finalCtx.task = &finalTask; finalCtx.out = &res.hist.back(); finalCtx.consumed = &res.consumed.back();
    finalCtx.recordAlways = true;
    taskMain(&finalCtx);
  }
  simrt::end();
  res.stats = simrt::stats();
  res.trace = simrt::trace();
  for (auto & t : tcs) {res.opsExecuted += t.ops;}
  std::string what;
  if (simrt::harnessError(&what)) {res.harnessError = true; res.harnessWhat = what;}
  if (simrt::failed()) {
    const simrt::Failure & f = simrt::failure();
    res.failed = true; res.cls = f.cls; res.detail = f.detail; res.sig = f.sig;
    // the threads were abandoned mid-call: the subject may be half-updated, so it is leaked, not destroyed
    return res;
  }
  delete s; delete s2;
  return res;
}

}  // namespace c19
