// C19 - shared variables, statistics and check-ups under concurrent use.
// Engine E3 driver (uninstrumented): plans (scenario, per-thread op lists, scheduler
// configuration or explicit schedule), post-run oracles over the recorded history
// (report consistency, exactly-once for the optional, sequential explainability,
// linearizability counted), shrinking of ops / threads / schedule.
#include <deque>
#include <set>
#include <unordered_set>
#include "../sim/core/runner.hpp"
#include "../models/rate.hpp"
#include "../models/checkup.hpp"
#include "C19_plan.hpp"
#include "C19_sc.hpp"

#include "romea_core_common/monitoring/OnlineAverage.hpp"
#include "romea_core_common/monitoring/OnlineVariance.hpp"

using namespace sim;
using namespace c19;

// sequential specification of the online statistics = the library classes themselves, run sequentially
namespace {
namespace rcm = romea::core;
void * twinMake(int W, bool variance) {return variance ? (void *)new rcm::OnlineVariance(1.0, (size_t)W) : (void *)new rcm::OnlineAverage(1.0, (size_t)W);}
void * twinClone(void * t, bool variance) {return variance ? (void *)new rcm::OnlineVariance(*(rcm::OnlineVariance *)t) : (void *)new rcm::OnlineAverage(*(rcm::OnlineAverage *)t);}
void twinDestroy(void * t, bool variance) {if (variance) {delete (rcm::OnlineVariance *)t;} else {delete (rcm::OnlineAverage *)t;}}
bool twinApply(void * t, bool variance, const Rec & r)
{
  rcm::OnlineAverage * a = variance ? (rcm::OnlineAverage *)(rcm::OnlineVariance *)t : (rcm::OnlineAverage *)t;
  switch (r.kind) {
    case O_UPDATE: a->update(r.v); return true;
    case O_RESET: a->reset(); return true;
    case O_GET_AVG: return closeTo(r.out, a->getAverage());
    case O_IS_AVAIL: return r.flag == a->isAvailable();
    case O_GET_VAR: return variance ? closeTo(r.out, ((rcm::OnlineVariance *)t)->getVariance()) : true;
    default: return true;
  }
}
TwinOps kTwinOps = {twinMake, twinClone, twinDestroy, twinApply};
struct TwinInstaller {TwinInstaller() {gTwinOps = &kTwinOps;}} kTwinInstaller;
}  // namespace

namespace {

std::string recStr(const Rec & r)
{
  std::string s = fmt("[%llu..%llu] T%d %s", (unsigned long long)r.inv, (unsigned long long)r.ret, r.task, opName(r.kind));
  switch (r.kind) {
    case O_STORE: s += fmt("(#%llx)", (unsigned long long)r.seq); break;
    case O_LOAD: s += fmt("() -> #%llx", (unsigned long long)r.outSeq); break;
    case O_CONSUME: s += r.has ? fmt("() -> #%llx", (unsigned long long)r.outSeq) : std::string("() -> nothing"); break;
    case O_UPDATE: case O_EVALUATE: s += fmt("(%g)", r.v); if (r.kind == O_EVALUATE) {s += std::string(" -> ") + model::statusName(r.status);} break;
    case O_GET_AVG: case O_GET_VAR: case O_RM_GET_RATE: s += fmt("() -> %.9g", r.out); break;
    case O_IS_AVAIL: s += fmt("() -> %d", r.flag); break;
    case O_GET_REPORT: case O_CR_GET_REPORT: s += std::string("() -> (") + model::statusName(r.status) + ", \"" + r.msg + "\", \"" + r.val + "\")"; break;
    case O_RM_UPDATE: s += fmt("(%lld) -> %.9g", (long long)r.t, r.out); break;
    case O_RM_TIMEOUT: s += fmt("(%lld) -> %d", (long long)r.t, r.flag); break;
    case O_CR_EVALUATE: s += fmt("(%lld) -> %s", (long long)r.t, model::statusName(r.status)); break;
    case O_CR_HEARTBEAT: s += fmt("(%lld) -> %d", (long long)r.t, r.flag); break;
    default: break;
  }
  return s;
}

}  // namespace

struct PropC19
{
  using Plan = c19::Plan;
  static constexpr const char * id = "C19";
  static constexpr const char * engine = "E3 schedsim";

  uint64_t master = 1; std::string tier; uint64_t nShort = 0, nLong = 0;
  std::vector<Plan> scriptedPlans;
  mutable uint64_t lastSyncHash = 0; mutable bool lastNontrivial = false;

  double hangSeconds() const {return 60;}
  double wallCapSeconds() const {return tier == "quick" ? 100 : 840;}
  uint64_t stopAfterViolations() const {return 3000;}

  void configure(const std::string & t, uint64_t seed)
  {
    tier = t; uint64_t x = seed; master = splitmix64(x) ^ hashStr(id);
    nShort = tier == "quick" ? 500000 : 12000000;
    nLong = tier == "quick" ? 66 : 1760;
    scriptedPlans.clear();
    for (int s = 0; s < S_COUNT; ++s) {scriptedPlans.push_back(shortPlan(mix64(0xabc, (uint64_t)s), s));}
  }
  uint64_t totalRuns() const {return scriptedPlans.size() + nLong + nShort;}

  static Op mk(int kind, double v = 0, int64_t t = 0, uint64_t seq = 0) {Op o; o.kind = kind; o.v = v; o.t = t; o.seq = seq; return o;}

  static void drawSched(Rng & r, SchedCfg & s, bool longRun)
  {
    s.seed = r.next();
    s.policy = (int)r.below(3);
    s.pctDepth = (int)r.range(1, 3);
    static const uint64_t steps[] = {50, 300, 2000};
    s.pctSteps = longRun ? 200000 : r.pick(steps);
    static const int slices[] = {1, 4, 16, 64};
    s.sliceMean = r.pick(slices);
    static const int shifts[] = {-1, 6, 3, 1};
    s.yieldShift = longRun ? (r.chance(0.5) ? -1 : 6) : r.pick(shifts);
    if (longRun && s.policy == 1) {s.policy = 2;}   // strict priorities would serialise a long run completely
    s.useTrace = false; s.trace.clear();
  }

  // thresholds and values of the check-up scenarios: all exactly representable and printable with <= 6 digits
  static void checkupConfig(int sc, Plan & p)
  {
    switch (sc) {
      case S_CHECKUP_EQ: p.a = 10; p.b = 1; break;
      case S_CHECKUP_GT: p.a = 10; p.b = 1; break;
      case S_CHECKUP_LT: p.a = 10; p.b = 1; break;
      case S_RELIABILITY: p.a = 0.25; p.b = 0.75; break;
      case S_RATE_MON: p.a = 2; p.b = 0; break;
      default: p.a = 2; p.b = 0.5; break;   // rate check-ups: 2 Hz expected (window 4), tolerance 0.5
    }
  }
  static double checkupValue(int sc, uint64_t k)
  {
    if (sc == S_RELIABILITY) {return (double)(k % 17) / 16.0;}
    return 7.5 + 0.25 * (double)(k % 24);   // 7.5 .. 13.25 : below, inside and above 10 +- 1
  }

  // a second object of the same class used by one more thread only (role 3): evaluate / store, then read back
  static Task neighbourTask(Rng & r, int sc, int pairs, uint32_t repeat)
  {
    Task t; t.role = 3; t.repeat = repeat;
    int64_t stamp = 1000000000LL;
    for (int i = 0; i < pairs; ++i) {
      switch (sc) {
        case S_SHARED_VAR: t.ops.push_back(mk(O_STORE, 0, 0, ((uint64_t)7 << 40) | (uint64_t)(i + 1))); t.ops.push_back(mk(O_LOAD)); break;
        case S_SHARED_OPT: t.ops.push_back(mk(O_STORE, 0, 0, ((uint64_t)7 << 40) | (uint64_t)(i + 1))); t.ops.push_back(mk(O_CONSUME)); break;
        case S_CHECKUP_EQ: case S_CHECKUP_GT: case S_CHECKUP_LT:
          t.ops.push_back(mk(O_EVALUATE, checkupValue(sc, r.below(24)) + 0.125)); t.ops.push_back(mk(O_GET_REPORT)); break;
        case S_RELIABILITY: t.ops.push_back(mk(O_EVALUATE, checkupValue(sc, r.below(16)) + 0.03125)); t.ops.push_back(mk(O_GET_REPORT)); break;
        case S_CHECKUP_RATE_EQ: case S_CHECKUP_RATE_GT:
          stamp += (int64_t)r.pick({125000000LL, 300000000LL, 450000000LL}); t.ops.push_back(mk(O_CR_EVALUATE, 0, stamp)); t.ops.push_back(mk(O_CR_GET_REPORT)); break;
        default: break;
      }
    }
    if (sc == S_SHARED_VAR || sc == S_SHARED_OPT) {t.seqStep = (uint64_t)pairs;}
    if (sc >= S_CHECKUP_RATE_EQ) {t.tStep = stamp - 1000000000LL + 200000000LL;}
    return t;
  }
  static bool neighbourScenario(int sc) {return sc == S_SHARED_VAR || sc == S_SHARED_OPT || (sc >= S_CHECKUP_EQ && sc <= S_RELIABILITY) || sc >= S_CHECKUP_RATE_EQ;}

  Plan shortPlan(uint64_t runseed, int forceScenario = -1) const
  {
    Rng r(runseed);
    Plan p;
    p.scenario = forceScenario >= 0 ? forceScenario : (int)r.below(S_COUNT);
    const int sc = p.scenario;
    p.W = (int)r.range(sc == S_ONLINE_VAR ? 2 : 1, 4);
    checkupConfig(sc, p);
    if (sc == S_SHARED_VAR || sc == S_SHARED_OPT) {p.a = r.chance(0.3) ? 1 : 0;}   // constructor variant
    if (sc == S_SHARED_VAR) {p.b = r.chance(0.25) ? 1 : 0;}                            // SharedVariable<bool> instead of <Blob>
    int budget = tier == "thorough" ? 48 : 32;   // operations per recorded history
    auto take = [&](int n) {n = std::min(n, budget); budget -= n; return n;};
    if (sc == S_SHARED_OPT) {
      int np = (int)r.range(1, 4), nc = (int)r.range(1, 4);
      for (int k = 0; k < np; ++k) {
        Task t; t.role = 0; int n = take((int)r.range(1, 5));
        for (int i = 0; i < n; ++i) {t.ops.push_back(mk(O_STORE, 0, 0, ((uint64_t)(k + 1) << 32) | (uint64_t)(i + 1)));}
        p.tasks.push_back(t);
      }
      for (int k = 0; k < nc; ++k) {
        Task t; t.role = 1; int n = take((int)r.range(1, 5));
        for (int i = 0; i < n; ++i) {t.ops.push_back(mk(O_CONSUME));}
        p.tasks.push_back(t);
      }
    } else {
      Task w; w.role = 0;
      int n = take((int)r.range(2, 9));
      int64_t t = 1000000000LL;
      for (int i = 0; i < n; ++i) {
        switch (sc) {
          case S_SHARED_VAR: w.ops.push_back(mk(O_STORE, r.chance(0.3) ? 1 : 0, 0, (uint64_t)i + 1)); break;
          case S_ONLINE_AVG: case S_ONLINE_VAR:
            if (i > 1 && r.chance(0.15)) {w.ops.push_back(mk(O_RESET));} else {w.ops.push_back(mk(O_UPDATE, std::ldexp(1.0, i)));}
            break;
          case S_CHECKUP_EQ: case S_CHECKUP_GT: case S_CHECKUP_LT: case S_RELIABILITY:
            w.ops.push_back(mk(O_EVALUATE, checkupValue(sc, r.below(24)))); break;
          default:
            t += (int64_t)r.pick({100000000LL, 250000000LL, 400000000LL, 500000000LL, 700000000LL});
            w.ops.push_back(mk(sc == S_RATE_MON ? O_RM_UPDATE : O_CR_EVALUATE, 0, t)); break;
        }
      }
      p.tasks.push_back(w);
      bool watchdog = (sc == S_CHECKUP_EQ || sc == S_CHECKUP_GT || sc == S_CHECKUP_LT || sc >= S_RATE_MON) && r.chance(0.6);
      if (watchdog) {
        Task h; h.role = 2; int m = take((int)r.range(1, 4));
        for (int i = 0; i < m; ++i) {
          if (sc < S_RATE_MON) {h.ops.push_back(mk(O_TIMEOUT));} else {
            // stamps whose verdict depends on whether they are ordered before or after neighbouring data stamps
            int64_t hb = 1000000000LL + (int64_t)r.below((uint64_t)(t - 1000000000LL + 700000000LL));
            h.ops.push_back(mk(sc == S_RATE_MON ? O_RM_TIMEOUT : O_CR_HEARTBEAT, 0, hb));
          }
        }
        p.tasks.push_back(h);
      }
      int nr = (int)r.range(1, 8);
      for (int k = 0; k < nr && budget > 0; ++k) {
        Task t2; t2.role = 1; int m = take((int)r.range(1, 4));
        for (int i = 0; i < m; ++i) {
          switch (sc) {
            case S_SHARED_VAR: t2.ops.push_back(mk(O_LOAD, r.chance(0.3) ? 1 : 0)); break;
            case S_ONLINE_AVG: t2.ops.push_back(mk(r.chance(0.5) ? O_GET_AVG : O_IS_AVAIL)); break;
            case S_ONLINE_VAR: t2.ops.push_back(mk(r.pick({(int)O_GET_AVG, (int)O_IS_AVAIL, (int)O_GET_VAR}))); break;
            case S_RATE_MON: t2.ops.push_back(mk(O_RM_GET_RATE)); break;
            case S_CHECKUP_RATE_EQ: case S_CHECKUP_RATE_GT: t2.ops.push_back(mk(O_CR_GET_REPORT)); break;
            default: t2.ops.push_back(mk(O_GET_REPORT));
          }
        }
        if (!t2.ops.empty()) {p.tasks.push_back(t2);}
      }
    }
    if (forceScenario < 0 && neighbourScenario(sc) && !(sc == S_SHARED_VAR && p.b != 0) && r.chance(0.25)) {p.tasks.push_back(neighbourTask(r, sc, (int)r.range(1, 3), 1));}
    drawSched(r, p.sched, false);
    return p;
  }

  // >= 1e5 operations in one run; no history, race detector + O(1) monitors
  Plan longPlan(uint64_t runseed) const
  {
    Rng r(runseed);
    Plan p; p.longRun = true;
    p.scenario = (int)(runseed % S_COUNT);
    const int sc = p.scenario;
    p.W = (int)r.range(sc == S_ONLINE_VAR ? 2 : 1, 4);
    checkupConfig(sc, p);
    if (sc == S_SHARED_VAR || sc == S_SHARED_OPT) {p.a = r.chance(0.3) ? 1 : 0;}
    if (sc == S_SHARED_VAR) {p.b = r.chance(0.25) ? 1 : 0;}
    const uint32_t total = 100000;
    if (sc == S_SHARED_OPT) {
      int np = (int)r.range(1, 4), nc = (int)r.range(1, 4);
      for (int k = 0; k < np; ++k) {
        Task t; t.role = 0; t.ops.push_back(mk(O_STORE, 0, 0, ((uint64_t)(k + 1) << 32) | 1)); t.repeat = total / 2 / (uint32_t)np; t.seqStep = 1;
        p.tasks.push_back(t);
      }
      for (int k = 0; k < nc; ++k) {Task t; t.role = 1; t.ops.push_back(mk(O_CONSUME)); t.repeat = total / 2 / (uint32_t)nc + 1; p.tasks.push_back(t);}
    } else {
      int nr = (int)r.range(1, 8);
      bool watchdog = (sc == S_CHECKUP_EQ || sc == S_CHECKUP_GT || sc == S_CHECKUP_LT || sc >= S_RATE_MON) && r.chance(0.6);
      uint32_t share = total / (uint32_t)(nr + 1 + (watchdog ? 1 : 0)) + 1;
      Task w; w.role = 0; w.repeat = share;
      switch (sc) {
        case S_SHARED_VAR: w.ops = {mk(O_STORE, 0, 0, 1), mk(O_STORE, 1, 0, 2)}; w.seqStep = 2; w.repeat = share / 2 + 1; break;
        case S_ONLINE_AVG: case S_ONLINE_VAR:
          w.ops.push_back(mk(O_UPDATE, 1)); w.vStep = 1;
          if (r.chance(0.5)) {w.ops = {mk(O_UPDATE, 1), mk(O_UPDATE, 2), mk(O_UPDATE, 3), mk(O_UPDATE, 4), mk(O_UPDATE, 5), mk(O_RESET)}; w.vStep = 5; w.repeat = share / 6 + 1;}
          break;
        case S_CHECKUP_EQ: case S_CHECKUP_GT: case S_CHECKUP_LT: case S_RELIABILITY:
          for (uint64_t k = 0; k < 24; ++k) {w.ops.push_back(mk(O_EVALUATE, checkupValue(sc, k * 7 % 24)));}
          w.repeat = share / 24 + 1; break;
        default:
          for (int k = 0; k < 8; ++k) {w.ops.push_back(mk(sc == S_RATE_MON ? O_RM_UPDATE : O_CR_EVALUATE, 0, 1000000000LL + (k + 1) * 250000000LL + (k % 3) * 50000000LL));}
          w.tStep = 8 * 250000000LL + 100000000LL; w.repeat = share / 8 + 1; break;
      }
      p.tasks.push_back(w);
      if (watchdog) {
        Task h; h.role = 2; h.repeat = share;
        if (sc < S_RATE_MON) {h.ops.push_back(mk(O_TIMEOUT));} else {
          h.ops.push_back(mk(sc == S_RATE_MON ? O_RM_TIMEOUT : O_CR_HEARTBEAT, 0, 1000000000LL + 300000000LL)); h.tStep = 250000000LL + 12500000LL;
        }
        p.tasks.push_back(h);
      }
      for (int k = 0; k < nr; ++k) {
        Task t; t.role = 1; t.repeat = share;
        switch (sc) {
          case S_SHARED_VAR: t.ops = {mk(O_LOAD), mk(O_LOAD, 1)}; t.repeat = share / 2 + 1; break;
          case S_ONLINE_AVG: t.ops = {mk(O_GET_AVG), mk(O_IS_AVAIL)}; t.repeat = share / 2 + 1; break;
          case S_ONLINE_VAR: t.ops = {mk(O_GET_AVG), mk(O_IS_AVAIL), mk(O_GET_VAR)}; t.repeat = share / 3 + 1; break;
          case S_RATE_MON: t.ops.push_back(mk(O_RM_GET_RATE)); break;
          case S_CHECKUP_RATE_EQ: case S_CHECKUP_RATE_GT: t.ops.push_back(mk(O_CR_GET_REPORT)); break;
          default: t.ops.push_back(mk(O_GET_REPORT));
        }
        p.tasks.push_back(t);
      }
    }
    if (neighbourScenario(sc) && !(sc == S_SHARED_VAR && p.b != 0) && r.chance(0.4)) {p.tasks.push_back(neighbourTask(r, sc, 4, 100000 / 8 / 4));}
    drawSched(r, p.sched, true);
    return p;
  }

  Plan generate(uint64_t index) const
  {
    if (index < scriptedPlans.size()) {return scriptedPlans[index];}
    index -= scriptedPlans.size();
    if (index < nLong) {return longPlan(mix64(master ^ 0x1009, index) / S_COUNT * S_COUNT + index % S_COUNT);}
    return shortPlan(mix64(master, index - nLong));
  }

  // ---------------------------------------------------------------- execution + oracles over the history
  Outcome execute(const Plan & p, Ctx & c) const
  {
    sim::junkHeap((int)(p.sched.seed % 5));   // fresh allocations are filled with a byte chosen by the plan
    ExecResult res = runScenario(p, false);
    return judge(p, res, c);
  }

  Outcome judge(const Plan & p, const ExecResult & res, Ctx & c) const
  {
    const simrt::Stats & st = res.stats;
    c.steps += st.steps; c.log(st.syncHash); c.log(st.switches); c.log(res.opsExecuted);
    lastSyncHash = mix64(st.syncHash, st.switches); lastNontrivial = st.preemptions > 0 && p.tasks.size() >= 2;
    SIM_COUNT_N("ops_executed", res.opsExecuted);
    SIM_COUNT_N("fault.preemption.fired", st.preemptions);
    SIM_COUNT_N("fault.preempted_while_holding_mutex.fired", st.preemptedHoldingLock);
    SIM_COUNT_N("fault.contended_lock_blocked_thread.fired", st.contendedLocks);
    SIM_COUNT_N("fault.preemption_at_plain_access.fired", st.plainYields);
    SIM_COUNT_N("fault.timed_lock_deadline_passed.fired", st.timedLockTimeouts);
    if (p.sched.yieldShift >= 0) {SIM_COUNT("fault.preemption_at_plain_access.configured");}
    SIM_COUNT("fault.preemption.configured"); SIM_COUNT("fault.preempted_while_holding_mutex.configured"); SIM_COUNT("fault.contended_lock_blocked_thread.configured");
    SIM_COUNT_N("scheduler_decisions", st.decisions); SIM_COUNT_N("context_switches", st.switches);
    SIM_COUNT_N("lock_acquisitions", st.lockAcquires); SIM_COUNT_N("atomic_operations", st.atomicOps);
    SIM_COUNT_N("instrumented_plain_accesses", st.plainAccesses); SIM_COUNT_N("instrumented_range_accesses", st.rangeAccesses);
    if (st.preemptedHoldingLock) {SIM_PROBE("preempted_while_holding_the_mutex");}
    if (st.contendedLocks) {SIM_PROBE("thread_blocked_on_contended_mutex");}
    if (p.longRun) {SIM_PROBE("long_run_1e5_operations");}
    if (p.sched.policy == 1) {SIM_PROBE("pct_schedule");}
    if (p.sched.useTrace) {SIM_PROBE("explicit_schedule_replayed");}
    if (p.scenario == S_SHARED_VAR && p.b != 0) {SIM_PROBE("shared_variable_of_bool");}
    {
      static Slot * slot = nullptr; static uint64_t * ctr[S_COUNT];
      if (slot != gSlot) {for (int k = 0; k < S_COUNT; ++k) {ctr[k] = &counter((std::string("op.scenario_") + scenarioName(k)).c_str());} slot = gSlot;}
      ++*ctr[p.scenario];
    }
    if (res.harnessError) {return Outcome::fail("harness:unmodelled-primitive", res.harnessWhat);}
    if (res.failed) {
      c.logs(res.cls);
      if (res.cls == "step-cap") {return Outcome::fail("harness:step-cap", res.detail);}
      // the class carries the call-site identity, so that shrinking stays on the same pair of operations
      lastSig = res.sig.empty() ? res.cls : res.sig;
      return Outcome::fail(lastSig, res.detail);
    }
    lastSig.clear();
    for (auto & h : res.hist) {for (auto & r : h) {c.log(r.outSeq); c.logd(r.out); c.log((uint64_t)r.status); c.log(r.flag); c.logs(r.val);}}
    if (c.record) {
      std::vector<const Rec *> all;
      for (auto & h : res.hist) {for (auto & r : h) {all.push_back(&r);}}
      std::sort(all.begin(), all.end(), [](const Rec * x, const Rec * y) {return x->inv < y->inv;});
      for (auto * r : all) {c.note(recStr(*r));}
    }

    // ---- the optional: every value taken was stored, exactly once, per producer in store order
    if (p.scenario == S_SHARED_OPT) {
      std::set<uint64_t> stored, seen;
      if (p.a != 0) {stored.insert(kInitialOptionalSeq); SIM_PROBE("optional_born_with_a_value");}
      for (auto & t : p.tasks) {
        if (t.role == 3) {continue;}   // the neighbour stores into its own object
        for (uint32_t rep = 0; rep < t.repeat; ++rep) {for (auto & o : t.ops) {if (o.kind == O_STORE) {stored.insert(o.seq + rep * t.seqStep);}}}
      }
      auto consumedOf = [&](size_t k) {
          std::vector<uint64_t> v;
          if (p.longRun) {v = res.consumed[k];} else {for (auto & r : res.hist[k]) {if (r.kind == O_CONSUME && r.has) {v.push_back(r.outSeq);}}}
          return v;
        };
      for (size_t k = 0; k < res.hist.size(); ++k) {
        std::map<uint64_t, uint64_t> lastOfProducer;
        for (uint64_t s : consumedOf(k)) {
          if (!stored.count(s)) {return Outcome::fail("optional-unknown-value", fmt("consumer T%zu received #%llx which no producer stored", k, (unsigned long long)s));}
          if (!seen.insert(s).second) {return Outcome::fail("optional-duplicated", fmt("value #%llx was handed to two consumers (or twice)", (unsigned long long)s));}
          uint64_t prod = s >> 32;
          if (lastOfProducer.count(prod) && lastOfProducer[prod] > s) {return Outcome::fail("optional-reordered", fmt("consumer T%zu received #%llx after #%llx of the same producer", k, (unsigned long long)s, (unsigned long long)lastOfProducer[prod]));}
          lastOfProducer[prod] = s;
        }
      }
      SIM_COUNT_N("optional_values_consumed", seen.size());
    }
    if (p.longRun) {
      // final state after quiescence: with a single mutating thread it is that thread's ops applied in order
      int mutators = 0; const Task * w = nullptr;
      for (auto & t : p.tasks) {if (t.role != 1 && t.role != 3) {++mutators; w = &t;}}
      if (mutators == 1 && p.scenario != S_SHARED_OPT && res.finalTask >= 0) {
        SeqModel m; m.init(p);
        for (uint32_t rep = 0; rep < w->repeat; ++rep) {
          for (auto & o : w->ops) {Rec r; r.kind = o.kind; r.v = o.v + rep * w->vStep; r.t = o.t + (int64_t)rep * w->tStep; r.seq = o.seq + (uint64_t)rep * w->seqStep; m.perform(r);}
        }
        for (auto & r : res.hist[(size_t)res.finalTask]) {
          if (!m.apply(r)) {return Outcome::fail(std::string("final-state-mismatch|") + scenarioName(p.scenario), "after all threads had finished, " + recStr(r) + " is not what the single writer's operations produce in order");}
        }
        SIM_PROBE("final_state_checked_after_long_run");
      }
      return Outcome::pass();
    }

    // ---- every report copy is a triple that one single operation produces
    if (p.scenario >= S_CHECKUP_EQ && p.scenario <= S_RELIABILITY) {
      SeqModel m; m.init(p);
      std::vector<model::ReportModel> producible; producible.push_back(m.chk.rep);
      for (auto & t : p.tasks) {
        if (t.role == 3) {continue;}
        for (auto & o : t.ops) {
          model::CheckupModel cm = m.chk;
          if (o.kind == O_EVALUATE) {cm.evaluate(o.v); producible.push_back(cm.rep);}
          if (o.kind == O_TIMEOUT) {cm.timeout(); producible.push_back(cm.rep);}
        }
      }
      for (auto & h : res.hist) {
        for (auto & r : h) {
          if (r.kind != O_GET_REPORT) {continue;}
          bool ok = false;
          for (auto & pr : producible) {if (pr.status == r.status && pr.message == r.msg && pr.value == r.val) {ok = true;}}
          if (!ok) {
            return Outcome::fail(std::string("report-inconsistent|") + scenarioName(p.scenario), "report copy " + recStr(r) + " is not the (status, message, value) of any single evaluation or timeout");
          }
        }
      }
    }

    // ---- sequential explainability (the violation criterion) and linearizability (counted only)
    SeqModel m0; m0.init(p);
    std::vector<size_t> pos(res.hist.size(), 0);
    ScSearch sc(res.hist, false, res.finalTask);
    bool explain = sc.go(pos, m0);
    if (sc.gaveUp) {SIM_COUNT("sc_search_gave_up"); return Outcome::pass();}
    SIM_COUNT("histories_checked_for_sequential_consistency"); SIM_COUNT_N("histories_sequentially_consistent_but_not_linearizable", 0);
    if (!explain) {
      std::string hs;
      std::vector<const Rec *> all;
      for (auto & h : res.hist) {for (auto & r : h) {all.push_back(&r);}}
      std::sort(all.begin(), all.end(), [](const Rec * x, const Rec * y) {return x->inv < y->inv;});
      for (auto * r : all) {hs += recStr(*r) + "; ";}
      if (hs.size() > 1500) {hs.resize(1500); hs += "...";}
      return Outcome::fail(std::string("not-sequentially-explainable|") + scenarioName(p.scenario), "no total order of the calls that respects each thread's program order produces the values read: " + hs);
    }
    std::fill(pos.begin(), pos.end(), 0);
    ScSearch lin(res.hist, true, res.finalTask);
    bool linear = lin.go(pos, m0);
    if (!lin.gaveUp && !linear) {SIM_COUNT("histories_sequentially_consistent_but_not_linearizable");}
    return Outcome::pass();
  }
  mutable std::string lastSig;

  // ---------------------------------------------------------------- JSON
  Json toJson(const Plan & p) const
  {
    Json j = Json::object();
    j.set("scenario", scenarioName(p.scenario)).set("scenario_id", p.scenario).set("W", p.W).set("a", p.a).set("b", p.b).set("long_run", p.longRun);
    Json ts = Json::array();
    for (auto & t : p.tasks) {
      Json o = Json::object(); o.set("role", t.role == 0 ? "writer" : t.role == 1 ? "reader" : t.role == 2 ? "watchdog" : "neighbour (own second object)").set("role_id", t.role);
      if (t.repeat != 1) {o.set("repeat", (uint64_t)t.repeat).set("v_step", t.vStep).set("t_step", (long long)t.tStep).set("seq_step", (uint64_t)t.seqStep);}
      Json ops = Json::array();
      for (auto & op : t.ops) {
        Json e = Json::object(); e.set("op", opName(op.kind)).set("kind", op.kind);
        if (op.kind == O_UPDATE || op.kind == O_EVALUATE) {e.set("v", op.v);}
        if (op.kind >= O_RM_UPDATE && op.kind != O_RM_GET_RATE && op.kind != O_CR_GET_REPORT) {e.set("stamp_ns", (long long)op.t);}
        if (op.kind == O_STORE) {e.set("seq", (uint64_t)op.seq);}
        if ((op.kind == O_STORE || op.kind == O_LOAD) && op.v != 0) {e.set("v", op.v).set("form", op.kind == O_STORE ? "operator=" : "operator T()");}
        ops.push(e);
      }
      o.set("ops", ops); ts.push(o);
    }
    j.set("threads", ts);
    Json s = Json::object();
    static const char * pol[] = {"random-walk", "pct", "time-slices"};
    s.set("seed", (long long)(p.sched.seed >> 1)).set("seed_lsb", (long long)(p.sched.seed & 1)).set("policy", pol[p.sched.policy]).set("policy_id", p.sched.policy)
    .set("pct_depth", p.sched.pctDepth).set("pct_steps", (uint64_t)p.sched.pctSteps).set("slice_mean", p.sched.sliceMean).set("yield_shift", p.sched.yieldShift)
    .set("explicit", p.sched.useTrace);
    if (p.sched.useTrace) {
      // explicit schedule: at decision #i run thread t (every other decision: stay with the running thread)
      Json sw = Json::array();
      for (size_t k = 0; k < p.sched.trace.size(); ++k) {if (p.sched.trace[k] > 0) {Json e = Json::array(); e.push((uint64_t)k); e.push(p.sched.trace[k]); sw.push(e);}}
      s.set("decisions", (uint64_t)p.sched.trace.size()).set("switch_at_decision", sw);
    }
    j.set("schedule", s);
    return j;
  }
  Plan fromJson(const Json & j) const
  {
    Plan p; p.scenario = (int)j["scenario_id"].i(); p.W = (int)j["W"].i(); p.a = j["a"].d(); p.b = j["b"].d(); p.longRun = j["long_run"].b();
    for (auto & o : j["threads"].a()) {
      Task t; t.role = (int)o["role_id"].i();
      if (o.has("repeat")) {t.repeat = (uint32_t)o["repeat"].i(); t.vStep = o["v_step"].d(); t.tStep = o["t_step"].i(); t.seqStep = o["seq_step"].u();}
      for (auto & e : o["ops"].a()) {
        Op op; op.kind = (int)e["kind"].i();
        if (e.has("v")) {op.v = e["v"].d();}
        if (e.has("stamp_ns")) {op.t = e["stamp_ns"].i();}
        if (e.has("seq")) {op.seq = e["seq"].u();}
        t.ops.push_back(op);
      }
      p.tasks.push_back(t);
    }
    const Json & s = j["schedule"];
    p.sched.seed = ((uint64_t)s["seed"].i() << 1) | (uint64_t)s["seed_lsb"].i();
    p.sched.policy = (int)s["policy_id"].i(); p.sched.pctDepth = (int)s["pct_depth"].i(); p.sched.pctSteps = s["pct_steps"].u();
    p.sched.sliceMean = (int)s["slice_mean"].i(); p.sched.yieldShift = (int)s["yield_shift"].i(); p.sched.useTrace = s["explicit"].b();
    if (p.sched.useTrace) {
      p.sched.trace.assign((size_t)s["decisions"].i(), -1);
      for (auto & e : s["switch_at_decision"].a()) {size_t k = (size_t)e[0].i(); if (k < p.sched.trace.size()) {p.sched.trace[k] = (int)e[1].i();}}
    }
    return p;
  }

  // ---------------------------------------------------------------- shrinking
  std::vector<Plan> simpler(const Plan & p) const
  {
    std::vector<Plan> out;
    if (p.sched.useTrace) {
      // schedule minimisation: cut the tail, then turn explicit switches back into "stay"
      std::vector<size_t> sw;
      for (size_t k = 0; k < p.sched.trace.size(); ++k) {if (p.sched.trace[k] > 0) {sw.push_back(k);}}
      if (!sw.empty() && sw.back() + 1 < p.sched.trace.size()) {Plan q = p; q.sched.trace.resize(sw.back() + 1); out.push_back(q);}
      if ((uint64_t)sw.size() * p.sched.trace.size() <= 200000000ULL) removalCandidates(sw, [&](std::vector<size_t> keep) {
          Plan q = p; std::fill(q.sched.trace.begin(), q.sched.trace.end(), -1);
          for (size_t k : keep) {q.sched.trace[k] = p.sched.trace[k];}
          out.push_back(q);
        });
      // fall through: ops and threads can still be removed under the explicit schedule
    }
    // whole threads (keep at least one)
    for (size_t k = 0; k < p.tasks.size() && p.tasks.size() > 1; ++k) {
      Plan q = p; q.tasks.erase(q.tasks.begin() + (long)k); out.push_back(q);
    }
    for (size_t k = 0; k < p.tasks.size(); ++k) {
      const Task & t = p.tasks[k];
      if (t.repeat > 1) {
        Plan q = p; q.tasks[k].repeat = t.repeat / 2; out.push_back(q);
        if (t.repeat <= 4) {Plan q2 = p; q2.tasks[k].repeat = t.repeat - 1; out.push_back(q2);}
      }
      if (t.ops.size() > 1 || (t.ops.size() == 1 && p.tasks.size() > 1)) {
        removalCandidates(t.ops, [&](std::vector<Op> v) {if (!v.empty()) {Plan q = p; q.tasks[k].ops = std::move(v); out.push_back(q);}});
      }
    }
    if (p.longRun) {
      bool small = true; for (auto & t : p.tasks) {if ((uint64_t)t.repeat * t.ops.size() > 12) {small = false;}}
      if (small) {Plan q = p; q.longRun = false; out.push_back(q);}
    }
    if (p.sched.yieldShift > -1 && p.sched.yieldShift < 6) {Plan q = p; q.sched.yieldShift = p.sched.yieldShift + 3 > 6 ? -1 : p.sched.yieldShift + 3; out.push_back(q);}
    return out;
  }

  // after the op/thread shrink has converged: capture the schedule as an explicit trace (in a child process)
  bool refine(Plan & p) const
  {
    if (p.sched.useTrace) {return false;}
    int fd[2]; if (pipe(fd) != 0) {return false;}
    fflush(stdout);
    pid_t pid = fork();
    if (pid == 0) {
      close(fd[0]); gSlot = privateSlot();
      sim::junkHeap((int)(p.sched.seed % 5));
      ExecResult res = runScenario(p, true);
      std::string s;
      for (int t : res.trace) {s += std::to_string(t) + " ";}
      s += "E";
      size_t off = 0; while (off < s.size()) {ssize_t w = write(fd[1], s.data() + off, s.size() - off); if (w <= 0) {break;} off += (size_t)w;}
      _exit(0);
    }
    close(fd[1]);
    std::string buf; char tmp[65536]; ssize_t n;
    while ((n = read(fd[0], tmp, sizeof tmp)) > 0) {buf.append(tmp, (size_t)n); if (buf.size() > (64u << 20)) {break;}}
    close(fd[0]); int st = 0; waitpid(pid, &st, 0);
    if (buf.empty() || buf.back() != 'E') {std::printf("note: schedule capture failed (%zu bytes)\n", buf.size()); return false;}
    std::vector<int> tr; const char * s = buf.c_str();
    while (*s && *s != 'E') {char * e; long v = strtol(s, &e, 10); if (e == s) {break;} tr.push_back((int)v); s = e; while (*s == ' ') {++s;}}
    // the schedule minimiser copies the whole trace per candidate: keep explicit schedules to a size it can afford
    size_t nsw = 0; for (int t : tr) {if (t > 0) {++nsw;}}
    if (tr.size() > 400000 || (uint64_t)nsw * tr.size() > 200000000ULL) {return false;}
    p.sched.useTrace = true; p.sched.trace = tr;
    return true;
  }

  uint64_t planSize(const Plan & p) const
  {
    uint64_t n = 0; for (auto & t : p.tasks) {n += (uint64_t)t.ops.size() * t.repeat;} return n;
  }
  // distinct interleavings: hash of the sequence (thread, sync op) at synchronisation points of the last execution
  uint64_t shapeHash(const Plan & p) const {return mix64(lastSyncHash, (uint64_t)p.scenario);}
  bool nontrivial(const Plan &) const {return lastNontrivial;}
  // call-site identity = the violation class itself: for races "race|<object class>|<API op> <-> <API op>"
  std::string signature(const Plan & p, const Outcome & o) const
  {
    if (o.cls == "crash" || o.cls == "hang") {return o.cls + "|" + scenarioName(p.scenario);}
    return o.cls;
  }
  std::vector<uint64_t> sampleIndexes() const
  {
    uint64_t s = scriptedPlans.size();
    return {4, s + 3, s + nLong + 1, s + nLong + 2, s + nLong + 3};
  }
  std::vector<std::string> probeNames() const
  {
    return {"preempted_while_holding_the_mutex", "thread_blocked_on_contended_mutex", "long_run_1e5_operations", "pct_schedule", "optional_born_with_a_value", "final_state_checked_after_long_run", "shared_variable_of_bool"};
  }
  Json describe() const
  {
    Json d = Json::object();
    d.set("rule",
      "A plan is (scenario, per-thread op lists, scheduler configuration). Scenarios: SharedVariable<Blob> 1 writer + 1..8 readers; "
      "SharedOptionalVariable<Blob> 1..4 producers + 1..4 consumers; OnlineAverage/OnlineVariance updater (with resets) + readers of "
      "getAverage/isAvailable/getVariance; CheckupEqualTo/GreaterThan/LowerThan<double> and CheckupReliability evaluator + optional "
      "watchdog (timeout) + getReport readers; RateMonitoring updater + heartbeat + getRate readers; CheckupRate<EqualTo|GreaterThan> "
      "evaluate + heartBeatCallback + getReport. A quarter of the shared-variable and check-up runs add a neighbour thread that is the only user of "
      "a second object of the same class and must always read back what it last did. Threads are fibers; a seeded scheduler (random walk / PCT priorities with 1..3 change "
      "points / random time slices) decides at every lock, unlock, atomic, API-call boundary and at plain accesses sampled with probability "
      "{0,1/64,1/8,1/2}. Short runs (<= 32 ops; <= 48 in the thorough tier) record the full history; long runs (>= 1e5 ops) use the race detector and O(1) monitors. "
      "distinct = distinct hash of the sequence (thread, synchronisation op) over the run, i.e. distinct interleavings at synchronisation "
      "points; non-trivial = at least one preemption of a runnable thread happened and >= 2 threads.");
    d.set("simulated_time_unit", "scheduler steps (yield points); steps_executed is their sum over all runs");
    Json or_ = Json::array();
    or_.push("happens-before data-race detector (vector clocks per thread, per-byte shadow, lock/unlock, atomics, fork/join edges) - stops the run before the racy access executes");
    or_.push("integrity of every value read: self-checking blobs (torn-read), report copies must be a triple of one single operation");
    or_.push("sequential explainability of the recorded history against the C16/C17/C18 models (violation criterion); linearizability counted only");
    or_.push("optional: every consumed value stored, delivered once, per producer in store order");
    or_.push("final observations by the main context after the join are part of every history and come last in any explaining order (a value lost or a state corrupted without any reader noticing is seen here)");
    or_.push("deadlock (all threads blocked), crash of the process");
    d.set("oracles", or_);
    Json comp = Json::object();
    comp.set("real_code", "SharedVariable.hpp, SharedOptionalVariable.hpp, OnlineAverage.cpp, OnlineVariance.cpp, RateMonitoring.cpp, Checkup*.hpp, CheckupRate.cpp, CheckupReliability.cpp, Diagnostic*.cpp - unmodified, compiled by clang++ -O1 -fsanitize=thread (instrumentation only)");
    comp.set("stubs", "threads = ucontext fibers; pthread mutex/rwlock/spin/once and __cxa_guard semantics modelled by the simulator (-Wl,--wrap); the TSan runtime is replaced by the simulator's own __tsan_* implementation; free()/realloc() interposed only to clear detector shadow; memcpy/memmove/memset wrapped to record range accesses");
    comp.set("scheduler", "seeded; every choice of who runs is the simulator's; explicit schedules (switch at decision #i to thread t) replay exactly");
    comp.set("clock", "stamps are arguments (rate scenarios); no real clock");
    comp.set("not_instrumented", "libstdc++.so internals (string buffers, stream locale), libc");
    d.set("components", comp);
    d.set("exhaustive", false);
    Json as = Json::array();
    as.push("sequentially consistent exploration suffices: if no data race exists the C++ memory model guarantees SC behaviour (all atomics in the anchored code are seq_cst); if one exists the detector reports it");
    as.push("'a value some sequential ordering of the calls would produce' is read as sequential consistency; real-time order (linearizability) is not demanded");
    as.push("for the online statistics the sequential specification is the library class itself executed sequentially in the candidate order (so also getAverage() on an empty window and getVariance() before the window is full must be values a sequential order produces); for the other scenarios it is the C17/C18 reference model");
    as.push("a watchdog thread calling Checkup::timeout() concurrently with evaluate() is within the property (it is what heartBeatCallback does)");
    d.set("assumptions", as);
    return d;
  }
};

int main(int argc, char ** argv)
{
  if (argc == 3 && std::string(argv[1]) == "--debug-refine") {
    PropC19 p; p.configure("quick", 1);
    Plan plan = p.fromJson(Json::parseFile(argv[2])["plan"]);
    bool ok = p.refine(plan);
    std::printf("refine=%d trace=%zu\n", ok, plan.sched.trace.size());
    return 0;
  }
  return simMain<PropC19>(argc, argv);
}
