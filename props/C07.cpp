// C07 - least-squares solver returns the minimiser of the current problem only.
// Engine E1: one LeastSquares object is driven through a history of problems of varying
// size (grow / shrink over poisoned stale rows / same size), every solution is compared
// with a freshly constructed solver given only the current problem (the history clause),
// and the input clauses (normal equations, Cholesky vs SVD, weights, preconditioner) are
// evaluated as per-step invariants.
#include <memory>
#include <Eigen/Dense>
#include "../sim/core/runner.hpp"
#include "romea_core_common/regression/leastsquares/LeastSquares.hpp"

using namespace sim;

namespace {

struct Problem
{
  uint64_t seed = 1;   // generates J, Y, W, A, b deterministically
  int m = 1;           // data size
  double cond = 1;     // condition number of J (prescribed singular values)
  double scale = 1;    // overall scale of J
  double noise = 0.01; // relative size of the inconsistent part of Y
  int path = 0;        // 0 SVD, 1 Cholesky, 2 weighted
  int precond = 0;     // 0 keep whatever is configured, 1 setPreconditionner(A), 2 setPreconditionner(A, b)
  bool covariance = false;
  bool poison = true;  // overwrite rows beyond m with large finite values before solving
  int fill = 0;        // how the rows of the current problem get into the solver:
                       // 0 written through fresh getJ()/getY()/getW() calls, 1 not written at all: the problem is the
                       // prefix of what the buffers already hold (only when they hold enough rows), 2 written through
                       // references to J, Y, W that were obtained once, right after construction,
                       // 3 only Y is rewritten (through a fresh getY()); J stays what the buffers hold,
                       // 4 only J is rewritten (through a fresh getJ()); Y stays what the buffers hold
  bool copy = false;    // before this problem the solver is replaced by a copy of itself (the original stays alive)
  bool reconfigure = false; // before this problem the caller calls setEstimateSize(p) again with the size the solver already has and
                        // then states the preconditioner it wants (the statement does not say what setEstimateSize does to an
                        // earlier preconditioner, so the check does not rely on either behaviour)
  bool noResize = false; // the caller does not call setDataSize() again when the problem has the size of the previous one
  bool resolve = false; // after the solve, solve the same data again with the other un-weighted path (paths 0/1 only)
};

struct Plan
{
  int junk = 0;   // index of the byte every fresh heap allocation is filled with (sim::junkHeap)
  bool isFloat = false;
  int p = 1;             // estimate size
  int ctorRows = -1;     // -1: LeastSquares(p); -2: LeastSquares() + setEstimateSize(p); otherwise LeastSquares(p, ctorRows)
  std::vector<Problem> problems;
};

using MatD = Eigen::MatrixXd; using VecD = Eigen::VectorXd;
using MatL = Eigen::Matrix<long double, Eigen::Dynamic, Eigen::Dynamic>;
using VecL = Eigen::Matrix<long double, Eigen::Dynamic, 1>;

MatD randomOrthonormal(Rng & r, int rows, int cols)
{
  MatD g(rows, cols);
  for (int j = 0; j < cols; ++j) {for (int i = 0; i < rows; ++i) {g(i, j) = r.normal();}}
  Eigen::HouseholderQR<MatD> qr(g);
  MatD q = qr.householderQ() * MatD::Identity(rows, cols);
  return q;
}

struct Data {MatD J; VecD Y, W; MatD A; VecD b; double sigmaMax, sigmaMin;};

Data makeData(const Problem & pb, int p)
{
  Rng r(pb.seed);
  Data d;
  const int m = pb.m;
  MatD q1 = randomOrthonormal(r, m, p), q2 = randomOrthonormal(r, p, p);
  VecD s(p);
  for (int k = 0; k < p; ++k) {
    double t = p == 1 ? 0.0 : (k == 0 ? 0.0 : (k == p - 1 ? 1.0 : r.unit()));
    s(k) = pb.scale * std::pow(pb.cond, -t);
  }
  d.sigmaMax = s.maxCoeff(); d.sigmaMin = s.minCoeff();
  d.J = q1 * s.asDiagonal() * q2.transpose();
  VecD xTrue(p); for (int k = 0; k < p; ++k) {xTrue(k) = r.uniform(-2, 2);}
  VecD n(m); for (int i = 0; i < m; ++i) {n(i) = r.normal();}
  VecD clean = d.J * xTrue;
  d.Y = clean + n * (pb.noise * (clean.norm() + 1e-300) / std::max(1.0, n.norm()));
  d.W.resize(m); for (int i = 0; i < m; ++i) {d.W(i) = r.logUniform(0.25, 4);}
  MatD u = randomOrthonormal(r, p, p), v = randomOrthonormal(r, p, p);
  VecD dd(p); for (int k = 0; k < p; ++k) {dd(k) = r.uniform(0.5, 2);}
  d.A = u * dd.asDiagonal() * v.transpose();
  if (r.chance(0.25)) {d.A = MatD::Identity(p, p);}   // a pure re-centring preconditioner: x = x0 + b
  if (r.chance(0.4)) {d.A *= r.logUniform(1e-4, 1e4);}  // preconditioners rescale: A is well conditioned but not of unit size
  if (r.chance(0.3)) {for (int i = 0; i < m; ++i) {if (r.chance(0.3)) {d.W(i) = -d.W(i);}}}   // the cost depends on w squared
  // some weights exactly zero (rows switched off), never so many that fewer than p + 2 rows remain
  if (r.chance(0.3)) {int z = (int)r.range(1, std::max(1, (m - p - 2) / 3)); for (int k = 0; k < z && m - p - 2 > 0; ++k) {d.W((long)r.below((uint64_t)m)) = 0;}}
  d.b.resize(p); for (int k = 0; k < p; ++k) {d.b(k) = r.uniform(-3, 3);}
  return d;
}

template<class T> struct Eps;
template<> struct Eps<float> {static constexpr double v = 1.1920929e-07;};
template<> struct Eps<double> {static constexpr double v = 2.220446049250313e-16;};

template<class T>
Outcome runHistory(const Plan & pl, Ctx & c)
{
  using LS = romea::core::LeastSquares<T>;
  using Mat = typename LS::Matrix; using Vec = typename LS::Vector;
  const int p = pl.p;
  std::unique_ptr<LS> ls(pl.ctorRows == -2 ? new LS : (pl.ctorRows < 0 ? new LS((size_t)p) : new LS((size_t)p, (size_t)pl.ctorRows)));
  if (pl.ctorRows == -2) {ls->setEstimateSize((size_t)p); SIM_PROBE("default_constructed_then_setEstimateSize");}
  // the model of the configuration that survives between problems: the preconditioner
  Mat curA = Mat::Identity(p, p); Vec curB = Vec::Zero(p);
  int rows = pl.ctorRows < 0 ? 0 : pl.ctorRows;   // rows the buffers currently have
  int prevM = -1, prevRows = 0; size_t no = 0;
  // references a caller may legitimately keep: the member matrices live as long as the solver
  Mat * Jref = &ls->getJ(); Vec * Yref = &ls->getY(); Vec * Wref = &ls->getW();
  std::unique_ptr<LS> sibling; Mat sibJ; Vec sibY;

  // a bystander: another solver that solves the same tiny exact problem at every step
  LS bystander((size_t)2);
  auto checkBystander = [&]() -> Outcome {
      bystander.setDataSize(3);
      bystander.getJ() << 1, 0, 0, 1, 1, 1; bystander.getY() << 1, 2, 3;
      Vec xb = (no & 1) ? bystander.estimateUsingSVD() : bystander.estimateUsingCholeskyDecomposition();
      if (!(std::fabs((double)xb(0) - 1.0) <= 1e-4 && std::fabs((double)xb(1) - 2.0) <= 1e-4)) {
        return Outcome::fail("bystander-solver-changed", fmt("another solver object solving x+0y=1, 0x+y=2, x+y=3 returns (%.9g, %.9g)", (double)xb(0), (double)xb(1)));
      }
      return Outcome::pass();
    };
  for (const Problem & pb : pl.problems) {
    ++no; ++c.steps;
    {Outcome ob = checkBystander(); if (!ob.ok) {return ob;}}
    const int m = std::max(pb.m, p);
    Data d = makeData(pb, p);
    if (pb.copy) {
      // continue on a copy (alternately copy-constructed and copy-assigned over another solver); the original stays
      // alive as a sibling whose buffers must not be touched by what the copy does
      std::unique_ptr<LS> cp;
      if (no % 3 == 1) {cp.reset(new LS(*ls));} else if (no % 3 == 2) {cp.reset(new LS((size_t)(p + 1), (size_t)7)); *cp = *ls;} else {
        // move construction from a copy (the original stays intact as the sibling)
        LS tmp(*ls); cp.reset(new LS(std::move(tmp))); SIM_PROBE("continue_on_a_moved_to_solver");
      }
      sibling = std::move(ls); ls = std::move(cp);
      const LS & sb = *sibling; sibJ = sb.getJ(); sibY = sb.getY();
      Jref = &ls->getJ(); Yref = &ls->getY(); Wref = &ls->getW();
      SIM_PROBE("continue_on_a_copy_of_the_solver");
    }
    if (pb.reconfigure) {
      ls->setEstimateSize((size_t)p);
      if (no & 1) {ls->setPreconditionner(curA, curB);} else {curA = Mat::Identity(p, p); curB = Vec::Zero(p); ls->setPreconditionner(curA);}
      SIM_PROBE("setEstimateSize_again_with_the_same_size");
    }
    const bool skipResize = pb.noResize && prevM == m && !pb.reconfigure && !pb.copy;
    if (skipResize) {SIM_PROBE("same_size_problem_without_a_new_setDataSize");}
    bool grew = skipResize ? false : ls->setDataSize((size_t)m);
    if (grew != (m > rows)) {
      return Outcome::fail("setDataSize-result", fmt("problem #%zu: setDataSize(%d) returned %d with buffers of %d rows", no, m, grew, rows));
    }
    if (m > rows) {rows = m; SIM_PROBE("grow_reallocates_buffers");} else if (m < rows) {SIM_PROBE("shrink_leaves_stale_rows");} else {SIM_PROBE("same_size_as_buffers");}
    if (prevM >= 0 && m < prevM) {SIM_PROBE("smaller_problem_after_larger");}
    if (prevM >= 0 && m > prevM && m <= rows && grew == false) {SIM_PROBE("grow_within_existing_buffers");}
    {
      const LS & k = *ls;
      if ((int)k.getJ().rows() < m || (int)k.getY().rows() < m || (int)k.getW().rows() < m || k.getJ().cols() != p) {
        return Outcome::fail("buffer-shape", fmt("problem #%zu: after setDataSize(%d) J is %dx%d, Y has %d rows, W has %d rows", no, m,
                 (int)k.getJ().rows(), (int)k.getJ().cols(), (int)k.getY().rows(), (int)k.getW().rows()));
      }
    }
    // how the caller reaches the buffers: fresh non-const getters, or references it kept from the start
    int fill = pb.fill;
    if ((fill == 1 || fill == 3 || fill == 4) && (prevM < 0 || grew || m > prevRows)) {fill = 0;}   // nothing to keep (fresh or reallocated buffers): write it
    Mat & Jw = fill == 0 ? ls->getJ() : *Jref;
    Vec & Yw = fill == 0 ? ls->getY() : *Yref;
    Vec & Ww = fill == 0 ? ls->getW() : *Wref;
    if (fill == 1) {SIM_PROBE("problem_is_prefix_of_previous_buffers_no_write");}
    if (fill == 2) {SIM_PROBE("problem_written_through_references_kept_from_start");}
    // stale rows beyond the current problem hold leftovers: make any use of them loud
    if (pb.poison && Jw.rows() > m) {
      SIM_COUNT("fault.poisoned_stale_rows.fired");
      T big = (T)(1e6 * pb.scale);
      for (int i = m; i < Jw.rows(); ++i) {
        for (int j = 0; j < p; ++j) {Jw(i, j) = ((i + j) % 2 ? big : -big);}
        Yw(i) = big * (T)3; Ww(i) = (T)1000;
      }
    }
    if (fill == 3) {ls->getY().head(m) = d.Y.template cast<T>(); SIM_PROBE("only_Y_rewritten");} else if (fill == 4) {
      ls->getJ().topRows(m) = d.J.template cast<T>(); SIM_PROBE("only_J_rewritten");
    } else if (fill != 1) {
      Jw.topRows(m) = d.J.template cast<T>(); Yw.head(m) = d.Y.template cast<T>();
      if (pb.path == 2) {Ww.head(m) = d.W.template cast<T>();}
    }
    // the current problem is whatever the first m rows hold now (read through the const interface)
    const LS & cls = *ls;
    Mat J = cls.getJ().topRows(m); Vec Y = cls.getY().head(m); Vec W = cls.getW().head(m);
    Mat A = d.A.template cast<T>(); Vec b = d.b.template cast<T>();
    if (!J.allFinite() || !Y.allFinite() || (pb.path == 2 && !W.allFinite())) {SIM_COUNT("op.skipped_non_finite_leftover_prefix"); prevM = m; prevRows = (int)cls.getJ().rows(); continue;}
    // singular values of the problem actually solved (the prefix of an earlier matrix has its own conditioning)
    double sigmaMax, sigmaMin;
    {
      // (for the weighted path the problem solved is diag(W) J)
      MatD Jeff = J.template cast<double>(); if (pb.path == 2) {Jeff = W.template cast<double>().asDiagonal() * Jeff;}
      Eigen::JacobiSVD<MatD> svd(Jeff);
      sigmaMax = svd.singularValues()(0); sigmaMin = svd.singularValues()(p - 1);
    }
    const double condNow = sigmaMin > 0 ? sigmaMax / sigmaMin : INFINITY;
    // the statement bounds the condition number; the generator bounds the scale (1e-6..1e6, float 1e-3..1e3).
    // Leftover prefixes that were re-weighted several times can leave both ranges: solved, but not judged.
    const double sLo = pl.isFloat ? 1e-4 : 1e-7, sHi = pl.isFloat ? 1e4 : 1e7;
    const bool inDomain = condNow <= (pl.isFloat ? 1.05e3 : 1.05e6) && Y.norm() > 0 && sigmaMax >= sLo && sigmaMax <= sHi &&
      (double)Y.norm() <= 1e3 * sHi;
    if (!inDomain) {SIM_PROBE("leftover_prefix_outside_condition_domain_numeric_clauses_skipped");}
    if (pb.precond == 1) {ls->setPreconditionner(A); curA = A; curB = Vec::Zero(p); SIM_COUNT("op.setPreconditionner_A");}
    if (pb.precond == 2) {ls->setPreconditionner(A, b); curA = A; curB = b; SIM_COUNT("op.setPreconditionner_A_b");}
    if (pb.precond == 0 && no > 1 && !(curA.isIdentity() && curB.isZero())) {SIM_PROBE("preconditioner_carried_over_from_earlier_problem");}

    auto solve = [&](LS & s, int path) -> Vec {
        switch (path) {case 0: return s.estimateUsingSVD(); case 1: return s.estimateUsingCholeskyDecomposition(); default: return s.weightedEstimate();}
      };
    static const char * pathName[] = {"estimateUsingSVD", "estimateUsingCholeskyDecomposition", "weightedEstimate"};
    Vec x = solve(*ls, pb.path);
    SIM_COUNT(pb.path == 0 ? "op.estimateUsingSVD" : pb.path == 1 ? "op.estimateUsingCholeskyDecomposition" : "op.weightedEstimate");
    for (int k = 0; k < p; ++k) {c.logd((double)x(k));}
    if (c.record) {
      c.note(fmt("#%zu m=%d cond=%.3g scale=%.3g path=%s precond=%d -> |x|=%.9g", no, m, pb.cond, pb.scale, pathName[pb.path], pb.precond, (double)x.norm()));
    }
    if (inDomain && !x.allFinite()) {return Outcome::fail("non-finite", fmt("problem #%zu (%s, m=%d, p=%d): the estimate is not finite", no, pathName[pb.path], m, p));}

    // ---- history clause: same answer as a fresh solver that sees only the current problem
    const double kappa = inDomain ? condNow : 1.0;
    const double roundoff = 100.0 * Eps<T>::v * kappa * kappa;      // c * eps * cond^2 (DESIGN.md, C07)
    auto fresh = [&](int path) -> std::pair<Vec, Mat> {
        LS t((size_t)p); t.setDataSize((size_t)m);
        t.getJ().topRows(m) = J; t.getY().head(m) = Y; if (path == 2) {t.getW().head(m) = W;}
        t.setPreconditionner(curA, curB);
        Vec xt = solve(t, path);
        Mat cov = t.computeEstimateCovariance((T)0.5);
        return {xt, cov};
      };
    auto twin = fresh(pb.path);
    prevM = m; prevRows = (int)cls.getJ().rows();
    if (!inDomain) {continue;}
    {
      double diff = (double)(x - twin.first).norm(), ref = std::max((double)x.norm(), (double)twin.first.norm());
      if (getenv("C07_STATS") && diff > 0.01 * roundoff * ref) {fprintf(stderr, "STAT twin ratio=%.3g cond=%.3g m=%d p=%d float=%d fill=%d\n", diff / (Eps<T>::v * kappa * kappa * ref), condNow, m, p, (int)pl.isFloat, fill);}
      if (!(diff <= roundoff * ref + 1e-300)) {
        return Outcome::fail("differs-from-fresh-solver", fmt("problem #%zu (%s, m=%d after %d-row buffers, p=%d, cond %.3g): reused solver and "
                 "fresh solver differ by %.3g relative (rounding allowance %.3g)", no, pathName[pb.path], m, rows, p, condNow,
                 diff / (ref + 1e-300), roundoff));
      }
    }
    if (pb.covariance) {
      Mat cov = ls->computeEstimateCovariance((T)0.5);
      SIM_COUNT("op.computeEstimateCovariance");
      double diff = (double)(cov - twin.second).norm(), ref = std::max((double)cov.norm(), (double)twin.second.norm());
      if (!(diff <= roundoff * ref + 1e-300) || !cov.allFinite()) {
        return Outcome::fail("covariance-differs-from-fresh-solver", fmt("problem #%zu (%s, m=%d): covariance of the reused solver differs from a fresh "
                 "solver's by %.3g relative", no, pathName[pb.path], m, diff / (ref + 1e-300)));
      }
    }

    // ---- input clauses, sampled per step. x = A x0 + b: recover x0 and test the (weighted) normal equations
    {
      MatL Jl = J.template cast<long double>(); VecL Yl = Y.template cast<long double>();
      if (pb.path == 2) {VecL Wl = W.template cast<long double>(); Jl = Wl.asDiagonal() * Jl; Yl = Wl.asDiagonal() * Yl;}
      MatL Al = curA.template cast<long double>();
      VecL x0 = Al.fullPivLu().solve(x.template cast<long double>() - curB.template cast<long double>());
      VecL res = Jl.transpose() * (Jl * x0 - Yl);
      long double sMax = sigmaMax;
      // + the rounding of the affine map itself: x = A x0 + b is rounded at the magnitude of |x| and |b|, and
      // recovering x0 = A^-1 (x - b) carries that absolute error times |A^-1| (A has condition <= 4 and any scale)
      long double invA = 1.0L / std::max<long double>(1e-300L, (long double)Eigen::JacobiSVD<MatD>(curA.template cast<double>()).singularValues()(p - 1));
      long double affine = 100.0L * Eps<T>::v * invA * ((long double)x.norm() + (long double)curB.norm()) * sMax * sMax;
      long double bound = (long double)roundoff * (sMax * sMax * x0.norm() + sMax * Yl.norm()) + affine + 1e-300L;
      if (getenv("C07_STATS") && res.norm() > 0.1 * bound) {fprintf(stderr, "STAT res ratio=%.3Lg cond=%.3g m=%d p=%d float=%d noise=%g path=%d\n", 100 * res.norm() / bound, condNow, m, p, (int)pl.isFloat, pb.noise, pb.path);}
      if (!(res.norm() <= bound)) {
        return Outcome::fail(pb.path == 2 ? "weighted-normal-equations-residual" : "normal-equations-residual",
                 fmt("problem #%zu (%s, m=%d, p=%d, cond %.3g, scale %.3g%s): |J^T(J x0 - Y)| = %.3Lg exceeds the rounding bound %.3Lg "
                 "(x0 recovered from x = A x0 + b)", no, pathName[pb.path], m, p, condNow, pb.scale, pl.isFloat ? ", float" : "", res.norm(), bound));
      }
    }
    // ---- Cholesky and SVD paths agree (on a fresh solver, so that no history is involved)
    if (pb.path <= 1) {
      auto other = fresh(1 - pb.path);
      double diff = (double)(x - other.first).norm(), ref = std::max((double)x.norm(), (double)other.first.norm());
      if (getenv("C07_STATS") && diff > 0.2 * roundoff * ref) {fprintf(stderr, "STAT csd ratio=%.3g cond=%.3g m=%d p=%d float=%d noise=%g\n", diff / (Eps<T>::v * kappa * kappa * ref), condNow, m, p, (int)pl.isFloat, pb.noise);}
      // allowance for this clause: 2 * 1000 * eps * cond^2. Measured on 5e6 problems of the repaired tree: the two
      // paths differ by up to 444 * eps * cond^2 (only for cond > 5e5, double), while the residual clause never
      // exceeds 10 % and the twin clause 1 % of their allowances; an explicit inverse of J^T J has a worst-case
      // forward error of eps * cond^4, so 100 * eps * cond^2 was too tight for *this* comparison (two alarms in
      // 2.4e6 problems, both 1.7x above it) - see DESIGN.md 8.2
      if (!(diff <= 20 * roundoff * ref + 1e-300)) {
        return Outcome::fail("cholesky-svd-disagree", fmt("problem #%zu (m=%d, p=%d, cond %.3g, scale %.3g%s): %s and the other path differ by %.3g "
                 "relative (rounding allowance %.3g)", no, m, p, condNow, pb.scale, pl.isFloat ? ", float" : "", pathName[pb.path], diff / (ref + 1e-300),
                 20 * roundoff));
      }
    }
    // ---- after a weighted solve the buffers hold the weighted rows: solving them again (no setDataSize, nothing
    // rewritten) is a problem of the same size whose rows are exactly those
    if (pb.resolve && pb.path == 2) {
      const LS & k2 = *ls; Mat J2 = k2.getJ().topRows(m); Vec Y2 = k2.getY().head(m);
      Eigen::JacobiSVD<MatD> sv(J2.template cast<double>());
      double c2 = sv.singularValues()(p - 1) > 0 ? sv.singularValues()(0) / sv.singularValues()(p - 1) : INFINITY;
      if (J2.allFinite() && Y2.allFinite() && c2 <= (pl.isFloat ? 1.05e3 : 1.05e6)) {
        int path2 = (int)(no & 1);
        Vec x2 = solve(*ls, path2);
        LS t((size_t)p); t.setDataSize((size_t)m); t.getJ().topRows(m) = J2; t.getY().head(m) = Y2; t.setPreconditionner(curA, curB);
        Vec xt = solve(t, path2);
        SIM_PROBE("unweighted_solve_of_the_buffers_right_after_a_weighted_solve");
        double ro2 = 100.0 * Eps<T>::v * c2 * c2;
        double diff = (double)(x2 - xt).norm(), ref = std::max((double)x2.norm(), (double)xt.norm());
        if (!(diff <= ro2 * ref + 1e-300) || !x2.allFinite()) {
          return Outcome::fail("differs-from-fresh-solver", fmt("problem #%zu: %s of the %d rows the buffers hold right after weightedEstimate() differs from a fresh solver's by %.3g relative "
                   "(rounding allowance %.3g)", no, pathName[path2], m, diff / (ref + 1e-300), ro2));
        }
      }
    }
    // ---- solving the same data again with the other un-weighted path: state carried from one estimate to the next
    if (pb.resolve && pb.path <= 1) {
      Vec x2 = solve(*ls, 1 - pb.path); auto other2 = fresh(1 - pb.path);
      SIM_PROBE("second_solve_on_same_data_other_path");
      double diff = (double)(x2 - other2.first).norm(), ref = std::max((double)x2.norm(), (double)other2.first.norm());
      if (!(diff <= roundoff * ref + 1e-300) || !x2.allFinite()) {
        return Outcome::fail("differs-from-fresh-solver", fmt("problem #%zu: a second solve of the same data with %s differs from a fresh solver's by %.3g relative "
                 "(rounding allowance %.3g)", no, pathName[1 - pb.path], diff / (ref + 1e-300), roundoff));
      }
    }
    if (sibling) {
      const LS & sb = *sibling;
      if (!(sb.getJ().rows() == sibJ.rows() && sb.getJ() == sibJ && sb.getY() == sibY)) {
        return Outcome::fail("original-changed-through-its-copy", fmt("problem #%zu: solving on a copy changed the J / Y buffers of the solver it was copied from", no));
      }
    }
    if (pb.scale < 1e-3) {SIM_PROBE("small_scale_problem");}
    if (pb.scale > 1e3) {SIM_PROBE("large_scale_problem");}
    if (pb.cond > 1e4) {SIM_PROBE("ill_conditioned_problem");}
    if (m == p) {SIM_PROBE("square_problem");}
  }
  return Outcome::pass();
}

}  // namespace

struct PropC07
{
  using Plan = ::Plan;
  static constexpr const char * id = "C07";
  static constexpr const char * engine = "E1 seqsim";
  uint64_t master = 1; std::string tier; uint64_t nRandom = 0;
  std::vector<Plan> scriptedPlans;

  double hangSeconds() const {return 60;}
  double wallCapSeconds() const {return tier == "quick" ? 100 : 840;}
  void configure(const std::string & t, uint64_t seed)
  {
    tier = t; uint64_t x = seed; master = splitmix64(x) ^ hashStr(id);
    nRandom = tier == "quick" ? 300000 : 12000000;
    scriptedPlans.clear();
    for (int fl = 0; fl < 2; ++fl) {
      Plan p; p.isFloat = fl; p.p = 3; p.ctorRows = -1;
      int sizes[] = {40, 400, 12, 12, 3, 500, 7}; int k = 0;
      for (int m : sizes) {
        Problem pb; pb.seed = 100 + (uint64_t)k; pb.m = m; pb.cond = fl ? 10 : 100; pb.scale = 1; pb.path = k % 3; pb.precond = k == 2 ? 2 : (k == 4 ? 1 : 0);
        pb.covariance = k % 2; p.problems.push_back(pb); ++k;
      }
      scriptedPlans.push_back(p);
    }
  }
  uint64_t totalRuns() const {return scriptedPlans.size() + nRandom;}

  Plan randomPlan(uint64_t runseed) const
  {
    Rng r(runseed);
    Plan p; p.isFloat = r.chance(0.4); p.p = (int)r.range(1, 8);
    p.ctorRows = r.chance(0.3) ? (int)r.range(p.p, 300) : (r.chance(0.2) ? -2 : -1);
    int n = (int)r.range(1, 12);
    int sizeStyle = (int)r.below(3);   // 0 wander, 1 big then small, 2 tiny
    double maxCond = p.isFloat ? 1e3 : 1e6;
    int condStyle = (int)r.below(3);   // 0 well conditioned, 1 full range, 2 worst
    int scaleStyle = (int)r.below(3);  // 0 unit, 1 full range, 2 extreme
    int fillStyle = (int)r.below(2);   // 0 always through fresh getters, 1 mixed (kept prefix / kept references)
    SIM_COUNT("fault.poisoned_stale_rows.configured");
    for (int k = 0; k < n; ++k) {
      Problem pb; pb.seed = r.next();
      switch (sizeStyle) {
        case 0: pb.m = (int)r.range(p.p, r.chance(0.3) ? 500 : 60); break;
        case 1: pb.m = k % 2 == 0 ? (int)r.range(100, 500) : (int)r.range(p.p, 30); break;
        default: pb.m = (int)r.range(p.p, p.p + 4);
      }
      pb.cond = condStyle == 0 ? r.logUniform(1, 10) : (condStyle == 1 ? r.logUniform(1, maxCond) : maxCond * r.uniform(0.5, 0.99));
      pb.scale = scaleStyle == 0 ? 1.0 : (scaleStyle == 1 ? r.logUniform(1e-6, 1e6) : (r.chance(0.5) ? 1e-6 : 1e6));
      if (p.isFloat) {pb.scale = scaleStyle == 0 ? 1.0 : r.logUniform(1e-3, 1e3);}
      if (p.p == 1) {pb.cond = 1;}
      pb.noise = r.pick({0.0, 1e-6, 0.01, 0.3});
      pb.path = (int)r.below(3);
      pb.precond = r.chance(0.6) ? 0 : (int)r.range(1, 2);
      pb.covariance = r.chance(0.3);
      pb.poison = true;
      pb.fill = fillStyle == 0 ? 0 : (int)r.below(5);
      pb.resolve = r.chance(0.2);
      pb.noResize = r.chance(0.3);
      if (k > 0 && r.chance(0.15)) {pb.m = p.problems.back().m; pb.noResize = true;}   // bias: same size as the previous problem, no new setDataSize
      pb.reconfigure = k > 0 && r.chance(0.08);
      pb.copy = k > 0 && r.chance(0.08);
      p.problems.push_back(pb);
    }
    return p;
  }
  // heap contents are an input of the run like any other: every fresh allocation is filled with a byte chosen by the plan
  Plan generate(uint64_t index) const {Plan p = generate0(index); p.junk = (int)(mix64(master ^ 0x6a756e6bULL, index) % 5); return p;}
  Outcome execute(const Plan & p, Ctx & c) const {sim::junkHeap(p.junk, 256 * 1024); return execute0(p, c);}
  Json toJson(const Plan & p) const {Json j = toJson0(p); j.set("heap_fill_index", p.junk); return j;}
  Plan fromJson(const Json & j) const {Plan p = fromJson0(j); if (j.has("heap_fill_index")) {p.junk = (int)j["heap_fill_index"].i();} return p;}
  std::vector<Plan> simpler(const Plan & p) const {std::vector<Plan> out = simpler0(p); if (p.junk != 0) {Plan q = p; q.junk = 0; out.push_back(q);} return out;}
  Plan generate0(uint64_t index) const
  {
    if (index < scriptedPlans.size()) {return scriptedPlans[index];}
    return randomPlan(mix64(master, index - scriptedPlans.size()));
  }
  Outcome execute0(const Plan & p, Ctx & c) const {return p.isFloat ? runHistory<float>(p, c) : runHistory<double>(p, c);}

  Json toJson0(const Plan & p) const
  {
    Json j = Json::object();
    j.set("scalar", p.isFloat ? "float" : "double").set("is_float", p.isFloat).set("estimate_size", p.p).set("constructed_with_rows", p.ctorRows);
    Json a = Json::array();
    static const char * pathName[] = {"estimateUsingSVD", "estimateUsingCholeskyDecomposition", "weightedEstimate"};
    for (auto & pb : p.problems) {
      Json o = Json::object();
      o.set("data_size", pb.m).set("cond", pb.cond).set("scale", pb.scale).set("noise", pb.noise).set("solve", pathName[pb.path]).set("path", pb.path)
      .set("set_preconditioner", pb.precond == 0 ? "no" : (pb.precond == 1 ? "A" : "A,b")).set("precond", pb.precond).set("covariance", pb.covariance)
      .set("poison_stale_rows", pb.poison).set("fill", pb.fill == 0 ? "fresh getJ()/getY()/getW()" : (pb.fill == 1 ? "none: prefix of what the buffers hold" : (pb.fill == 2 ? "references kept from construction" : (pb.fill == 3 ? "only Y rewritten" : "only J rewritten")))).set("fill_mode", pb.fill).set("solve_again_other_path", pb.resolve).set("setEstimateSize_again", pb.reconfigure).set("no_setDataSize_if_same_size", pb.noResize).set("continue_on_copy", pb.copy).set("data_seed_hi", (long long)(pb.seed >> 32)).set("data_seed_lo", (long long)(pb.seed & 0xffffffffULL));
      a.push(o);
    }
    j.set("problems", a);
    j.set("note", "J = Q1 diag(sigma) Q2^T, Y = J x + noise, W, A, b are regenerated deterministically from data_seed");
    return j;
  }
  Plan fromJson0(const Json & j) const
  {
    Plan p; p.isFloat = j["is_float"].b(); p.p = (int)j["estimate_size"].i(); p.ctorRows = (int)j["constructed_with_rows"].i();
    for (auto & o : j["problems"].a()) {
      Problem pb; pb.m = (int)o["data_size"].i(); pb.cond = o["cond"].d(); pb.scale = o["scale"].d(); pb.noise = o["noise"].d(); pb.path = (int)o["path"].i();
      pb.precond = (int)o["precond"].i(); pb.covariance = o["covariance"].b(); pb.poison = o["poison_stale_rows"].b(); pb.fill = o.has("fill_mode") ? (int)o["fill_mode"].i() : 0; pb.resolve = o["solve_again_other_path"].b(); pb.reconfigure = o.has("setEstimateSize_again") && o["setEstimateSize_again"].b(); pb.noResize = o.has("no_setDataSize_if_same_size") && o["no_setDataSize_if_same_size"].b(); pb.copy = o["continue_on_copy"].b();
      pb.seed = ((uint64_t)o["data_seed_hi"].i() << 32) | (uint64_t)o["data_seed_lo"].i();
      p.problems.push_back(pb);
    }
    return p;
  }
  std::vector<Plan> simpler0(const Plan & p) const
  {
    std::vector<Plan> out;
    removalCandidates(p.problems, [&](std::vector<Problem> v) {if (!v.empty()) {Plan q = p; q.problems = std::move(v); out.push_back(q);}});
    if (p.ctorRows != -1) {Plan q = p; q.ctorRows = -1; out.push_back(q);}
    if (p.p > 1) {Plan q = p; q.p = p.p - 1; out.push_back(q);}
    if (p.isFloat) {Plan q = p; q.isFloat = false; out.push_back(q);}
    for (size_t k = 0; k < p.problems.size(); ++k) {
      const Problem & pb = p.problems[k];
      if (pb.m > p.p) {Plan q = p; q.problems[k].m = std::max(p.p, pb.m / 2); out.push_back(q); Plan q2 = p; q2.problems[k].m = pb.m - 1; out.push_back(q2);}
      if (pb.cond != 1) {Plan q = p; q.problems[k].cond = pb.cond > 10 ? std::sqrt(pb.cond) : 1; out.push_back(q);}
      if (pb.scale != 1) {Plan q = p; q.problems[k].scale = 1; out.push_back(q);}
      if (pb.noise != 0) {Plan q = p; q.problems[k].noise = 0; out.push_back(q);}
      if (pb.covariance) {Plan q = p; q.problems[k].covariance = false; out.push_back(q);}
      if (pb.precond != 0) {Plan q = p; q.problems[k].precond = pb.precond - 1; out.push_back(q);}
      if (pb.path != 1) {Plan q = p; q.problems[k].path = 1; out.push_back(q);}
      if (pb.fill != 0) {Plan q = p; q.problems[k].fill = 0; out.push_back(q);}
      if (pb.resolve) {Plan q = p; q.problems[k].resolve = false; out.push_back(q);}
      if (pb.reconfigure) {Plan q = p; q.problems[k].reconfigure = false; out.push_back(q);}
      if (pb.noResize) {Plan q = p; q.problems[k].noResize = false; out.push_back(q);}
      if (pb.copy) {Plan q = p; q.problems[k].copy = false; out.push_back(q);}
    }
    return out;
  }
  uint64_t planSize(const Plan & p) const {return p.problems.size();}
  uint64_t shapeHash(const Plan & p) const
  {
    uint64_t h = mix64((uint64_t)p.isFloat * 16 + (uint64_t)p.p, (uint64_t)(p.ctorRows + 2));
    int rows = std::max(0, p.ctorRows);
    for (auto & pb : p.problems) {
      int m = std::max(pb.m, p.p); int cls = m > rows ? 0 : (m < rows ? 1 : 2); rows = std::max(rows, m);
      h = mix64(h, (uint64_t)cls * 64 + (uint64_t)pb.path * 16 + (uint64_t)pb.precond * 4 + pb.covariance + (uint64_t)(pb.m / 8) * 4096 + (uint64_t)pb.fill * 1024);
    }
    return h;
  }
  // non-trivial: some problem is solved in buffers larger than itself (stale rows present)
  bool nontrivial(const Plan & p) const
  {
    int rows = std::max(0, p.ctorRows);
    for (auto & pb : p.problems) {int m = std::max(pb.m, p.p); if (m < rows) {return true;} rows = std::max(rows, m);}
    return false;
  }
  std::string signature(const Plan & p, const Outcome & o) const
  {
    std::string s = o.cls + "|" + (p.isFloat ? "float" : "double") + "|";
    int rows = std::max(0, p.ctorRows);
    for (auto & pb : p.problems) {int m = std::max(pb.m, p.p); s += m > rows ? "G" : (m < rows ? "S" : "E"); s += "scw"[pb.path]; if (pb.fill) {s += "?kryj"[pb.fill];} if (pb.resolve) {s += "2";} if (pb.copy) {s += "C";} if (pb.reconfigure) {s += "R";} rows = std::max(rows, m);}
    return s;
  }
  std::vector<uint64_t> sampleIndexes() const {return {0, 2, 3, 4};}
  std::vector<std::string> probeNames() const
  {
    return {"grow_reallocates_buffers", "shrink_leaves_stale_rows", "same_size_as_buffers", "smaller_problem_after_larger", "grow_within_existing_buffers",
      "preconditioner_carried_over_from_earlier_problem", "default_constructed_then_setEstimateSize", "problem_is_prefix_of_previous_buffers_no_write",
      "problem_written_through_references_kept_from_start", "only_Y_rewritten", "only_J_rewritten", "second_solve_on_same_data_other_path", "unweighted_solve_of_the_buffers_right_after_a_weighted_solve", "continue_on_a_copy_of_the_solver", "small_scale_problem", "large_scale_problem", "ill_conditioned_problem", "square_problem"};
  }
  Json describe() const
  {
    Json d = Json::object();
    d.set("rule",
      "A plan is (scalar type, estimate size 1..8, constructor variant, list of <= 12 problems); each problem has a data size in "
      "[p,500], a design matrix J = Q1 diag(sigma) Q2^T with prescribed condition number (<= 1e6 double, <= 1e3 float) and scale "
      "(1e-6..1e6), Y = J x + noise, a solve path (SVD / Cholesky / weighted), optionally a new preconditioner (A or A,b) and a "
      "covariance query; a problem may also be the prefix of what the buffers hold, be written through references kept from construction, "
      "be preceded by a copy / assignment / move of the solver or by setEstimateSize() with the size it already has, and be solved twice. Heap and "
      "stack are filled with a plan-chosen byte. Rows of the solver's buffers beyond the current data size are poisoned with large finite values before each "
      "solve. distinct = distinct hash of (type, p, per problem: grow/shrink/equal, path, preconditioner op, size class); "
      "non-trivial = at least one problem is solved in buffers larger than itself.");
    Json or_ = Json::array();
    or_.push("history clause (decided): estimate and covariance equal those of a fresh solver given only the current problem and the configured preconditioner, within 100*eps*cond^2 relative (summation order may differ with buffer alignment)");
    or_.push("input clauses (sampled per step): |J^T(J x0 - Y)| <= 100*eps*cond^2*(smax^2|x0| + smax|Y|) with x0 = A^-1(x - b), evaluated in long double; weighted normal equations for the weighted path; Cholesky and SVD agree within 2000*eps*cond^2 (measured worst case 444*eps*cond^2)");
    d.set("oracles", or_);
    Json comp = Json::object();
    comp.set("real_code", "LeastSquares.cpp <float> and <double> (g++ -O3, asserts on)");
    comp.set("stubs", "none; the fresh twin is the library's own code");
    comp.set("scheduler", "not used (single owner)"); comp.set("clock", "not used");
    comp.set("faults", "restart-like events: problem size shrinking after growth over poisoned leftover rows, preconditioner carried over");
    d.set("components", comp);
    d.set("exhaustive", false);
    Json as = Json::array();
    as.push("each problem is solved exactly once (weightedEstimate scales the buffers in place); its rows get into the solver in one of three ways: written through fresh getJ()/getY()/getW() calls, written through references to the member matrices kept since construction, or not written at all (the problem is then the prefix of what the buffers already hold). The current problem is always read back through the const getters, and its condition number is computed from those rows; problems whose leftover prefix falls outside the condition domain are solved but not judged");
    as.push("Y is generated as J x + noise with |x| ~ 1, so that the normal-equation bound in terms of |x0| and |Y| is meaningful");
    as.push("for float at cond near 1e3 the rounding allowance 100*eps*cond^2 exceeds 1 and the numeric clauses are vacuous there; structural checks remain");
    as.push("the configured preconditioner is part of the current problem (it legitimately persists between problems)");
    d.set("assumptions", as);
    return d;
  }
};

int main(int argc, char ** argv) {return simMain<PropC07>(argc, argv);}
