// C02 - local tangent-plane (ENU) frame: histories of construct / setAnchor / reset / convert
// on one ENUConverter. After every op the anchored flag and every conversion are compared
// with a freshly constructed converter on the model's anchor (history clause) and with an
// independent long-double geodesy model (orientation, origin, isometry, 1 mm round trips).
#include <memory>
#include "../sim/core/runner.hpp"
#include "romea_core_common/geodesy/ENUConverter.hpp"
#include "romea_core_common/geodesy/EarthEllipsoid.hpp"

using namespace sim;
namespace rc = romea::core;

namespace {

enum OpKind {CONSTRUCT = 0, CONSTRUCT_ANCHOR, SET_ANCHOR, RESET, TOENU_GEO, TOENU_WGS84, TOENU_ECEF, TOECEF, TOWGS84, OBSERVE, SET_OWN_ANCHOR, COPY, ASSIGN_ANCHORED, ASSIGN_FRESH, ASSIGN_RESET, ASSIGN_SELF, TOENU_GEO_AGAIN};
const char * kOpName[] = {"ENUConverter()", "ENUConverter(anchor)", "setAnchor", "reset", "toENU(geodetic)", "toENU(WGS84)", "toENU(ecef)",
  "toECEF(enu)", "toWGS84(enu)", "isAnchored/getEnuToEcefTransform", "setAnchor(getAnchor())", "continue on a copy",
  "conv = <converter anchored here>", "conv = ENUConverter()", "conv = <converter anchored here, then reset()>", "conv = conv", "toENU(the geodetic point converted last time)"};

struct Op
{
  int kind = OBSERVE;
  double lat = 0, lon = 0, alt = 0;   // anchor / absolute geodetic point (used when the converter is not anchored)
  double e = 0, n = 0, u = 0;         // local point (metres) relative to the current anchor
};
struct Plan {std::vector<Op> ops; int junk = 0;};

typedef long double L;
struct V3 {L x, y, z;};
V3 operator-(V3 a, V3 b) {return {a.x - b.x, a.y - b.y, a.z - b.z};}
V3 operator+(V3 a, V3 b) {return {a.x + b.x, a.y + b.y, a.z + b.z};}
L dot(V3 a, V3 b) {return a.x * b.x + a.y * b.y + a.z * b.z;}
L norm(V3 a) {return sqrtl(dot(a, a));}
struct Geo {L lat, lon, h;};

// independent geodesy on the same ellipsoid constants
struct Earth
{
  L a, e2;
  Earth() {a = rc::EarthEllipsoid::GRS80.a; L b = rc::EarthEllipsoid::GRS80.b; e2 = (a * a - b * b) / (a * a);}
  V3 ecef(Geo g) const
  {
    L s = sinl(g.lat), c = cosl(g.lat), N = a / sqrtl(1 - e2 * s * s);
    return {(N + g.h) * c * cosl(g.lon), (N + g.h) * c * sinl(g.lon), (N * (1 - e2) + g.h) * s};
  }
  Geo geo(V3 p) const
  {
    L lon = atan2l(p.y, p.x), r = hypotl(p.x, p.y);
    L lat = atan2l(p.z, r * (1 - e2)), h = 0;
    for (int k = 0; k < 12; ++k) {
      L s = sinl(lat), N = a / sqrtl(1 - e2 * s * s);
      h = r / cosl(lat) - N;
      lat = atan2l(p.z, r * (1 - e2 * N / (N + h)));
    }
    L s = sinl(lat), N = a / sqrtl(1 - e2 * s * s);
    h = fabsl(lat) < 0.78L ? r / cosl(lat) - N : p.z / s - N * (1 - e2);
    return {lat, lon, h};
  }
};
struct Frame
{
  V3 east, north, up, origin;
  Frame(const Earth & E, Geo a)
  {
    L sl = sinl(a.lat), cl = cosl(a.lat), so = sinl(a.lon), co = cosl(a.lon);
    east = {-so, co, 0}; north = {-sl * co, -sl * so, cl}; up = {cl * co, cl * so, sl}; origin = E.ecef(a);
  }
  V3 toLocal(V3 ecef) const {V3 d = ecef - origin; return {dot(d, east), dot(d, north), dot(d, up)};}
  V3 toEcef(V3 l) const
  {
    return {origin.x + east.x * l.x + north.x * l.y + up.x * l.z, origin.y + east.y * l.x + north.y * l.y + up.y * l.z,
      origin.z + east.z * l.x + north.z * l.y + up.z * l.z};
  }
};

const L kMillimetre = 1e-3L;

Outcome runHistory(const Plan & p, Ctx & c)
{
  static const Earth E;
  std::unique_ptr<rc::ENUConverter> conv(new rc::ENUConverter);  // default-initialised, as "ENUConverter c;" or a class member would be, in plan-filled memory
  bool anchored = false; Geo anchor {0, 0, 0};   // the model: un-anchored, or anchored at `anchor`
  bool everReset = false, reanchored = false; size_t no = 0;
  // a bystander: another converter anchored once at a fixed place; nothing done to the subject may move it
  const Geo byAnchor {0.6L, -1.1L, 120.0L};
  rc::ENUConverter bystander(rc::makeGeodeticCoordinates((double)byAnchor.lat, (double)byAnchor.lon, (double)byAnchor.h));
  const Eigen::Affine3d byT = bystander.getEnuToEcefTransform();
  Geo lastGeo {0, 0, 0}; bool haveLastGeo = false;   // the absolute point of the last toENU(geodetic)
  std::unique_ptr<rc::ENUConverter> sibling; bool siblingAnchored = false; Geo siblingAnchor {0, 0, 0}; Eigen::Affine3d siblingT;

  auto geoOf = [](const Geo & g) {return rc::makeGeodeticCoordinates((double)g.lat, (double)g.lon, (double)g.h);};
  auto v3 = [](const Eigen::Vector3d & v) {return V3 {v.x(), v.y(), v.z()};};
  auto ev = [](V3 v) {return Eigen::Vector3d((double)v.x, (double)v.y, (double)v.z);};

  // everything that can be observed of an anchored frame, against the fresh twin and the model
  // In half of the runs everything below is observed on a COPY of the subject made for the occasion, so that the
  // observation itself (dozens of conversions per op) does not overwrite whatever the history left inside the subject -
  // a memo or cache that an op forgot to invalidate would otherwise always be refreshed before the next op looks at it.
  const bool observeOnCopy = (p.junk & 1) != 0;
  auto checkFrame = [&](const Op & op) -> Outcome {
      std::unique_ptr<rc::ENUConverter> probe(observeOnCopy ? new rc::ENUConverter(*conv) : nullptr);
      rc::ENUConverter * obs = observeOnCopy ? probe.get() : conv.get();
      if (observeOnCopy) {SIM_PROBE("frame_observed_on_a_copy_of_the_subject");}
      if (obs->isAnchored() != anchored) {
        return Outcome::fail("anchored-flag-mismatch", fmt("after op #%zu (%s): isAnchored()=%d, the history says %d", no, kOpName[op.kind], obs->isAnchored(), anchored));
      }
      c.log(anchored);
      if (!anchored) {return Outcome::pass();}
      rc::ENUConverter twin(geoOf(anchor));
      Frame F(E, anchor);
      const Eigen::Affine3d & T = obs->getEnuToEcefTransform(); const Eigen::Affine3d & Tt = twin.getEnuToEcefTransform();
      for (int i = 0; i < 3; ++i) {for (int j = 0; j < 4; ++j) {c.logd(T(i, j));}}
      double dlin = (T.linear() - Tt.linear()).norm(), dtr = (T.translation() - Tt.translation()).norm();
      if (!(dlin <= 1e-12) || !(dtr <= 1e-6)) {
        return Outcome::fail("differs-from-fresh-converter", fmt("after op #%zu (%s): frame differs from a fresh converter anchored at (%.9Lg, %.9Lg, %.6Lg): "
                 "rotation by %.3g, translation by %.3g m (state left over from the earlier frame)", no, kOpName[op.kind], anchor.lat, anchor.lon, anchor.h, dlin, dtr));
      }
      // the anchor the converter reports is the one the history says (exactly: it is stored, not computed)
      {
        const rc::GeodeticCoordinates & ga = obs->getAnchor();
        if (ga.latitude != (double)anchor.lat || ga.longitude != (double)anchor.lon || ga.altitude != (double)anchor.h) {
          return Outcome::fail("anchor-mismatch", fmt("after op #%zu (%s): getAnchor() = (%.17g, %.17g, %.17g), the history says (%.17Lg, %.17Lg, %.17Lg)", no, kOpName[op.kind],
                   ga.latitude, ga.longitude, ga.altitude, anchor.lat, anchor.lon, anchor.h));
        }
      }
      // proper rotation, oriented east / north / up
      Eigen::Matrix3d R = T.linear();
      if (!((R.transpose() * R - Eigen::Matrix3d::Identity()).norm() <= 1e-12) || !(std::fabs(R.determinant() - 1.0) <= 1e-12)) {
        return Outcome::fail("frame-not-proper-rotation", fmt("after op #%zu: |R^T R - I| = %.3g, det = %.17g", no, (R.transpose() * R - Eigen::Matrix3d::Identity()).norm(), R.determinant()));
      }
      // axes against the directions of increasing longitude, latitude and height of the forward map (finite differences)
      const L d = 1e-6L;
      V3 fe = E.ecef({anchor.lat, anchor.lon + d, anchor.h}) - E.ecef({anchor.lat, anchor.lon - d, anchor.h});
      V3 fn = E.ecef({anchor.lat + d, anchor.lon, anchor.h}) - E.ecef({anchor.lat - d, anchor.lon, anchor.h});
      V3 fu = E.ecef({anchor.lat, anchor.lon, anchor.h + 1}) - E.ecef({anchor.lat, anchor.lon, anchor.h - 1});
      V3 fd[3] = {fe, fn, fu}; V3 an[3] = {F.east, F.north, F.up}; const char * axn[3] = {"first axis (east)", "second axis (north)", "third axis (up)"};
      for (int k = 0; k < 3; ++k) {
        L nn = norm(fd[k]); V3 unit = {fd[k].x / nn, fd[k].y / nn, fd[k].z / nn};
        V3 col = {R(0, k), R(1, k), R(2, k)};
        if (!(norm(col - unit) <= 1e-8L) || !(norm(col - an[k]) <= 1e-12L)) {
          return Outcome::fail("axis-orientation", fmt("after op #%zu: the %s of the frame is (%.9g, %.9g, %.9g), the direction of increase at the anchor "
                   "is (%.9Lg, %.9Lg, %.9Lg)", no, axn[k], R(0, k), R(1, k), R(2, k), unit.x, unit.y, unit.z));
        }
      }
      // reference -> origin ; h above -> (0,0,h)
      {
        Eigen::Vector3d z = (no & 1) ? obs->toENU(obs->getAnchor()) : obs->toENU(geoOf(anchor));
        if (!(z.norm() <= (double)kMillimetre)) {return Outcome::fail("reference-not-at-origin", fmt("after op #%zu: the anchor maps to (%.6g, %.6g, %.6g)", no, z.x(), z.y(), z.z()));}
        double hh = op.u;
        Eigen::Vector3d a = obs->toENU(rc::makeGeodeticCoordinates((double)anchor.lat, (double)anchor.lon, (double)anchor.h + hh));
        if (!((a - Eigen::Vector3d(0, 0, hh)).norm() <= (double)kMillimetre)) {
          return Outcome::fail("height-above-not-on-z", fmt("after op #%zu: the point %.6g m above the anchor maps to (%.9g, %.9g, %.9g)", no, hh, a.x(), a.y(), a.z()));
        }
      }
      // the op's local point: ENU -> ECEF -> ENU, ENU -> geodetic -> ENU, distances, and agreement with twin and model
      V3 lp {op.e, op.n, op.u};
      Eigen::Vector3d ecef = obs->toECEF(ev(lp)), ecefT = twin.toECEF(ev(lp));
      V3 em = F.toEcef(lp);
      for (int k = 0; k < 3; ++k) {c.logd(ecef[k]);}
      if (!((ecef - ecefT).norm() <= 1e-6)) {return Outcome::fail("differs-from-fresh-converter", fmt("after op #%zu: toECEF of (%.6g,%.6g,%.6g) differs from a fresh converter's by %.3g m", no, op.e, op.n, op.u, (ecef - ecefT).norm()));}
      if (!(norm(v3(ecef) - em) <= kMillimetre)) {return Outcome::fail("conversion-differs-from-model", fmt("after op #%zu: toECEF of (%.6g,%.6g,%.6g) is %.4Lg m away from the reference geodesy", no, op.e, op.n, op.u, norm(v3(ecef) - em)));}
      // the three-scalar overloads are the same conversions
      {
        Eigen::Vector3d e3 = obs->toECEF(op.e, op.n, op.u); rc::GeodeticCoordinates g3 = obs->toWGS84(op.e, op.n, op.u), gv = obs->toWGS84(ev(lp));
        if (!((e3 - ecef).norm() <= 1e-9) || !(std::fabs(g3.latitude - gv.latitude) <= 1e-15 && std::fabs(g3.longitude - gv.longitude) <= 1e-15 && std::fabs(g3.altitude - gv.altitude) <= 1e-9)) {
          return Outcome::fail("scalar-overload-differs", fmt("after op #%zu: toECEF/toWGS84(x, y, z) differ from the vector overloads for (%.6g,%.6g,%.6g)", no, op.e, op.n, op.u));
        }
      }
      Eigen::Vector3d back = obs->toENU(ecef);
      if (!((back - ev(lp)).norm() <= (double)kMillimetre)) {return Outcome::fail("round-trip-enu-ecef", fmt("after op #%zu: toENU(toECEF(p)) is %.4g m away from p = (%.6g,%.6g,%.6g)", no, (back - ev(lp)).norm(), op.e, op.n, op.u));}
      rc::GeodeticCoordinates g = obs->toWGS84(ev(lp)); rc::GeodeticCoordinates gt = twin.toWGS84(ev(lp));
      c.logd(g.latitude); c.logd(g.longitude); c.logd(g.altitude);
      if (!(std::fabs(g.latitude - gt.latitude) <= 1e-13 && std::fabs(g.altitude - gt.altitude) <= 1e-6 && std::fabs(std::remainder(g.longitude - gt.longitude, 6.283185307179586)) <= 1e-13)) {
        return Outcome::fail("differs-from-fresh-converter", fmt("after op #%zu: toWGS84 of (%.6g,%.6g,%.6g) differs from a fresh converter's", no, op.e, op.n, op.u));
      }
      Eigen::Vector3d back2 = obs->toENU(g);
      if (!((back2 - ev(lp)).norm() <= (double)kMillimetre)) {
        return Outcome::fail("round-trip-enu-geodetic", fmt("after op #%zu: toENU(toWGS84(p)) is %.4g m away from p = (%.6g,%.6g,%.6g) (anchor lat %.9Lg lon %.12Lg h %.6Lg; "
                 "geodetic lat %.12g lon %.15g h %.6g)", no, (back2 - ev(lp)).norm(), op.e, op.n, op.u, anchor.lat, anchor.lon, anchor.h, g.latitude, g.longitude, g.altitude));
      }
      Geo gm = E.geo(em);
      V3 viaModel = F.toLocal(E.ecef({g.latitude, g.longitude, g.altitude}));
      if (!(norm(viaModel - lp) <= kMillimetre) || !(fabsl(gm.h - g.altitude) <= kMillimetre)) {
        return Outcome::fail("conversion-differs-from-model", fmt("after op #%zu: toWGS84 of (%.6g,%.6g,%.6g) is %.4Lg m away from the reference geodesy (altitude off by %.4Lg m)", no, op.e, op.n, op.u, norm(viaModel - lp), fabsl(gm.h - g.altitude)));
      }
      // isometry: distance to a second local point is preserved by the frame transform
      V3 lq {-0.37 * op.n + 11.0, 0.61 * op.e - 7.0, 0.5 * op.u};
      Eigen::Vector3d eq = obs->toECEF(ev(lq));
      L dLocal = norm(lq - lp), dEcef = (L)(eq - ecef).norm();
      // the same distance from two results that are alive at the same time and were never copied
      {
        L dInline = (L)(obs->toECEF(ev(lq)) - obs->toECEF(ev(lp))).norm();
        const auto & keep = obs->toECEF(ev(lp)); Eigen::Vector3d before = keep; (void)obs->toECEF(ev(lq)); (void)obs->toWGS84(ev(lq));
        if (!(fabsl(dInline - dLocal) <= 1e-9L * (dLocal + 1)) || !(keep == before)) {
          return Outcome::fail("distance-not-preserved", fmt("after op #%zu: |toECEF(q) - toECEF(p)| evaluated in one expression is %.12Lg m for a local distance of %.12Lg m "
                   "(or a kept result changed under a later call): conversion results alias each other", no, dInline, dLocal));
        }
      }
      // two points 2 mm apart converted one right after the other stay 2 mm apart (1 mm clause, consecutive calls)
      {
        Eigen::Vector3d a = ev(lp), b = ev(lp) + Eigen::Vector3d(0.002, 0, 0);
        rc::GeodeticCoordinates ga = obs->toWGS84(a), gb = obs->toWGS84(b);
        Eigen::Vector3d ra = obs->toENU(ga), rb = obs->toENU(gb);
        if (!((ra - a).norm() <= (double)kMillimetre) || !((rb - b).norm() <= (double)kMillimetre)) {
          return Outcome::fail("round-trip-enu-geodetic", fmt("after op #%zu: two local points 2 mm apart converted to geodetic one right after the other come back %.4g m and %.4g m from where they were",
                   no, (ra - a).norm(), (rb - b).norm()));
        }
      }
      if (!(fabsl(dLocal - dEcef) <= 1e-9L * (dLocal + 1))) {return Outcome::fail("distance-not-preserved", fmt("after op #%zu: local distance %.12Lg m, ECEF distance %.12Lg m", no, dLocal, dEcef));}
      if (reanchored && everReset) {SIM_PROBE("frame_checked_after_reset_and_reanchor");}
      if (fabsl(fabsl(remainderl(anchor.lon, 6.283185307179586477L)) - 3.141592653589793238L) < 0.1L) {SIM_PROBE("anchor_within_0.1rad_of_antimeridian");}
      if (fabsl(anchor.lat) > 1.4L) {SIM_PROBE("anchor_beyond_80deg_latitude");}
      if (hypot(op.e, op.n) > 90000) {SIM_PROBE("local_point_beyond_90km");}
      return Outcome::pass();
    };

  {Op o0; Outcome o = checkFrame(o0); if (!o.ok) {return o;}}
  for (const Op & raw : p.ops) {
    ++no; ++c.steps;
    Op op = raw;
    // ops whose precondition (anchored) is false are interpreted as a plain observation
    if (!anchored && (op.kind == TOENU_ECEF || op.kind == TOECEF || op.kind == TOWGS84 || op.kind == SET_OWN_ANCHOR || op.kind == TOENU_GEO_AGAIN)) {op.kind = OBSERVE; SIM_COUNT("op.skipped_needs_anchor");}
    Geo ga {op.lat, op.lon, op.alt};
    switch (op.kind) {
      case CONSTRUCT: sibling.reset(); conv.reset(new rc::ENUConverter); anchored = false; everReset = false; reanchored = false; SIM_COUNT("op.construct"); break;
      case CONSTRUCT_ANCHOR: sibling.reset(); conv.reset(new rc::ENUConverter(geoOf(ga))); anchored = true; anchor = ga; everReset = false; reanchored = false; SIM_COUNT("op.construct_with_anchor"); break;
      case SET_ANCHOR:
        if (anchored) {SIM_PROBE("set_anchor_replaces_existing_frame");}
        if (no & 1) {const rc::GeodeticCoordinates named = geoOf(ga); conv->setAnchor(named);} else {conv->setAnchor(geoOf(ga));}   // named object / temporary
        if (everReset) {reanchored = true;}
        anchored = true; anchor = ga; SIM_COUNT("op.setAnchor"); break;
      case COPY: {
          // the (implicit) copy constructor carries flag, anchor and frame over; the history continues on the copy,
          // and the original stays alive as a sibling that nothing done to the copy may change
          if (no % 3 == 2) {
            // move construction: the history continues on the moved-to converter (the moved-from one is dropped)
            std::unique_ptr<rc::ENUConverter> moved(new rc::ENUConverter(std::move(*conv)));
            conv = std::move(moved); SIM_PROBE("continue_on_a_moved_to_converter"); break;
          }
          std::unique_ptr<rc::ENUConverter> copy(new rc::ENUConverter(*conv));
          sibling = std::move(conv); conv = std::move(copy);
          siblingAnchored = anchored; siblingAnchor = anchor; siblingT = sibling->getEnuToEcefTransform();
          SIM_PROBE("continue_on_a_copy"); break;
        }
      case ASSIGN_ANCHORED: {
          // copy assignment from another converter replaces flag, anchor and frame; the source keeps its own
          std::unique_ptr<rc::ENUConverter> src(new rc::ENUConverter(geoOf(ga)));
          const Eigen::Affine3d srcT = src->getEnuToEcefTransform();
          *conv = *src;
          if (!src->isAnchored() || !(src->getEnuToEcefTransform().matrix() == srcT.matrix())) {return Outcome::fail("assignment-changed-its-source", fmt("op #%zu: after conv = src the source converter is no longer what it was", no));}
          anchored = true; anchor = ga; everReset = false; reanchored = false; SIM_PROBE("assigned_from_an_anchored_converter"); break;
        }
      case ASSIGN_FRESH:
        if (anchored) {SIM_PROBE("anchored_converter_overwritten_by_an_unanchored_one");}
        *conv = rc::ENUConverter(); anchored = false; everReset = false; reanchored = false; break;
      case ASSIGN_RESET: {
          std::unique_ptr<rc::ENUConverter> src(new rc::ENUConverter(geoOf(ga))); src->reset();
          if (anchored) {SIM_PROBE("anchored_converter_overwritten_by_a_reset_one");}
          *conv = *src; anchored = false; everReset = true; break;
        }
      case ASSIGN_SELF: {
          rc::ENUConverter & self = *conv; *conv = self; SIM_PROBE("self_assignment"); break;
        }
      case SET_OWN_ANCHOR:
        // the argument aliases the converter's own stored anchor: the frame must simply stay what it is
        conv->setAnchor(conv->getAnchor()); SIM_PROBE("set_anchor_with_own_anchor_reference"); break;
      case RESET:
        if (anchored) {SIM_COUNT("fault.reset_of_anchored_converter.fired");} else {SIM_PROBE("reset_of_unanchored_converter");}
        conv->reset(); anchored = false; everReset = true; break;
      case TOENU_GEO: {
          SIM_COUNT("op.toENU_geodetic");
          if (!anchored) {
            // auto-anchor: the first geodetic point converted becomes the anchor and maps to the origin
            if (everReset) {SIM_PROBE("auto_anchor_after_reset"); reanchored = true;} else {SIM_PROBE("auto_anchor_of_fresh_converter");}
            Eigen::Vector3d r = conv->toENU(geoOf(ga)); lastGeo = ga; haveLastGeo = true;
            anchored = true; anchor = ga;
            if (!(r.norm() <= (double)kMillimetre)) {return Outcome::fail("auto-anchor-not-at-origin", fmt("op #%zu: first geodetic point converted by an un-anchored converter maps to (%.6g,%.6g,%.6g)", no, r.x(), r.y(), r.z()));}
          } else {
            Frame F(E, anchor); Geo g = E.geo(F.toEcef({op.e, op.n, op.u}));
            Eigen::Vector3d r = conv->toENU(geoOf(g)); lastGeo = g; haveLastGeo = true;
            if (!(norm(v3(r) - V3 {op.e, op.n, op.u}) <= kMillimetre)) {
              return Outcome::fail("conversion-differs-from-model", fmt("op #%zu: toENU(geodetic) of the point at local (%.6g,%.6g,%.6g) returned (%.9g,%.9g,%.9g)", no, op.e, op.n, op.u, r.x(), r.y(), r.z()));
            }
          }
          break;
        }
      case TOENU_GEO_AGAIN: {
          // the very same absolute point as the previous geodetic conversion, whatever happened to the frame in between:
          // the answer is that point in the CURRENT frame (it may be far outside the 100 km domain, so the comparison
          // is with a fresh converter on the current anchor, not with the millimetre clauses)
          if (!haveLastGeo) {break;}
          std::unique_ptr<rc::ENUConverter> fresh(new rc::ENUConverter(geoOf(anchor)));
          Eigen::Vector3d r = conv->toENU(geoOf(lastGeo)), rt = fresh->toENU(geoOf(lastGeo));
          SIM_PROBE("same_geodetic_point_converted_again");
          if (!((r - rt).norm() <= 1e-6 + 1e-12 * rt.norm())) {
            return Outcome::fail("differs-from-fresh-converter", fmt("op #%zu: toENU of the geodetic point converted last time returns (%.9g,%.9g,%.9g), a fresh converter on the current anchor gives (%.9g,%.9g,%.9g)",
                     no, r.x(), r.y(), r.z(), rt.x(), rt.y(), rt.z()));
          }
          break;
        }
      case TOENU_WGS84: {
          SIM_COUNT("op.toENU_wgs84");
          if (!anchored) {
            // un-anchored state is the state of a fresh converter: the point is taken at altitude 0
            if (everReset) {SIM_PROBE("auto_anchor_wgs84_after_reset"); reanchored = true;}
            Eigen::Vector3d r = conv->toENU(rc::makeWGS84Coordinates(op.lat, op.lon));
            anchored = true; anchor = {op.lat, op.lon, 0};
            if (!(r.norm() <= (double)kMillimetre)) {return Outcome::fail("auto-anchor-not-at-origin", fmt("op #%zu: first point converted by an un-anchored converter maps to (%.6g,%.6g,%.6g)", no, r.x(), r.y(), r.z()));}
          } else {
            // a latitude/longitude is taken at the altitude of the anchor
            Frame F(E, anchor); Geo g = E.geo(F.toEcef({op.e, op.n, 0})); g.h = anchor.h;
            V3 want = F.toLocal(E.ecef(g));
            Eigen::Vector3d r = conv->toENU(rc::makeWGS84Coordinates((double)g.lat, (double)g.lon));
            if (!(norm(v3(r) - want) <= kMillimetre)) {
              return Outcome::fail("conversion-differs-from-model", fmt("op #%zu: toENU(WGS84) returned (%.9g,%.9g,%.9g), expected (%.9Lg,%.9Lg,%.9Lg)", no, r.x(), r.y(), r.z(), want.x, want.y, want.z));
            }
          }
          break;
        }
      case TOENU_ECEF: {
          Frame F(E, anchor); V3 em = F.toEcef({op.e, op.n, op.u});
          Eigen::Vector3d r = conv->toENU(ev(em)); SIM_COUNT("op.toENU_ecef");
          if (!(norm(v3(r) - V3 {op.e, op.n, op.u}) <= kMillimetre)) {return Outcome::fail("conversion-differs-from-model", fmt("op #%zu: toENU(ecef) is %.4Lg m off", no, norm(v3(r) - V3 {op.e, op.n, op.u})));}
          break;
        }
      case TOECEF: SIM_COUNT("op.toECEF"); break;     // exercised by the frame check below
      case TOWGS84: SIM_COUNT("op.toWGS84"); break;   // exercised by the frame check below
      default: SIM_COUNT("op.observe"); break;
    }
    if (c.record) {
      c.note(fmt("#%zu %s  anchor/point (%.12g, %.15g, %.6g) local (%.6g, %.6g, %.6g) -> model: %s", no, kOpName[op.kind], op.lat, op.lon, op.alt, op.e, op.n, op.u,
        anchored ? fmt("anchored at (%.12Lg, %.15Lg, %.6Lg)", anchor.lat, anchor.lon, anchor.h).c_str() : "un-anchored"));
    }
    Outcome o = checkFrame(op); if (!o.ok) {return o;}
    if (!bystander.isAnchored() || !(bystander.getEnuToEcefTransform().matrix() == byT.matrix()) ||
      !(bystander.toENU(rc::makeGeodeticCoordinates((double)byAnchor.lat, (double)byAnchor.lon, (double)byAnchor.h)).norm() <= (double)kMillimetre)) {
      return Outcome::fail("bystander-converter-changed", fmt("after op #%zu (%s) on the subject, another converter anchored elsewhere no longer has its own frame", no, kOpName[op.kind]));
    }
    if (sibling) {
      bool okS = sibling->isAnchored() == siblingAnchored && sibling->getEnuToEcefTransform().matrix() == siblingT.matrix();
      if (okS && siblingAnchored) {
        okS = sibling->getAnchor().latitude == (double)siblingAnchor.lat && sibling->getAnchor().longitude == (double)siblingAnchor.lon &&
          sibling->toENU(rc::makeGeodeticCoordinates((double)siblingAnchor.lat, (double)siblingAnchor.lon, (double)siblingAnchor.h)).norm() <= (double)kMillimetre;
        SIM_PROBE("original_checked_after_its_copy_was_changed");
      }
      if (!okS) {
        return Outcome::fail("original-changed-through-its-copy", fmt("after op #%zu (%s) on a copy, the converter it was copied from no longer has the frame it had", no, kOpName[op.kind]));
      }
    }
  }
  return Outcome::pass();
}

}  // namespace

struct PropC02
{
  using Plan = ::Plan;
  static constexpr const char * id = "C02";
  static constexpr const char * engine = "E1 seqsim";
  uint64_t master = 1; std::string tier; uint64_t nRandom = 0;
  std::vector<Plan> scriptedPlans;

  double hangSeconds() const {return 30;}
  double wallCapSeconds() const {return tier == "quick" ? 100 : 840;}

  static Op mk(int kind, double lat, double lon, double alt, double e = 0, double n = 0, double u = 0)
  {
    Op o; o.kind = kind; o.lat = lat; o.lon = lon; o.alt = alt; o.e = e; o.n = n; o.u = u; return o;
  }
  void configure(const std::string & t, uint64_t seed)
  {
    tier = t; uint64_t x = seed; master = splitmix64(x) ^ hashStr(id);
    nRandom = tier == "quick" ? 2000000 : 80000000;
    scriptedPlans.clear();
    Plan p;
    p.ops = {mk(OBSERVE, 0, 0, 0), mk(TOENU_GEO, 0.7986, 0.0538, 365, 10, 20, 5), mk(TOWGS84, 0, 0, 0, 1000, -2000, 30), mk(RESET, 0, 0, 0),
      mk(RESET, 0, 0, 0), mk(TOENU_WGS84, -0.66, 2.53, 0, 5, 5, 1), mk(TOECEF, 0, 0, 0, 99000, 1000, 9000), mk(SET_ANCHOR, 1.48, -3.1, -400, 0, 0, 100),
      mk(TOENU_ECEF, 0, 0, 0, -50000, 50000, -3000), mk(CONSTRUCT_ANCHOR, -1.4, 1.5707963267948966, 8000, 1, 1, 1), mk(TOENU_GEO, 0, 0, 0, 70000, 70000, 100),
      mk(RESET, 0, 0, 0), mk(TOENU_GEO, 0.1, 3.141592653589793, 20, 3, 4, 5), mk(CONSTRUCT, 0, 0, 0), mk(TOENU_WGS84, 0.5, -0.5, 0, 2, 2, 2)};
    scriptedPlans.push_back(p);
  }
  uint64_t totalRuns() const {return scriptedPlans.size() + nRandom;}

  static void drawAnchor(Rng & r, int lonStyle, Op & o)
  {
    const double pi = 3.141592653589793;
    o.lat = r.chance(0.15) ? (r.chance(0.5) ? 1 : -1) * 85.0 * pi / 180 * r.uniform(0.97, 1.0) : r.uniform(-85, 85) * pi / 180;
    if (r.chance(0.05)) {o.lat = 0;}
    int style = lonStyle == 4 ? (int)r.below(4) : lonStyle;
    switch (style) {
      case 0: o.lon = r.uniform(-pi, pi); break;
      case 1: o.lon = r.pick({0.0, pi / 2, -pi / 2, pi, -pi}); break;
      case 2: {double dl = r.logUniform(1e-9, 0.1); o.lon = r.chance(0.5) ? pi - dl : -pi + dl; break;}   // near the antimeridian
      default: o.lon = r.uniform(-pi, pi); break;
    }
    o.alt = r.chance(0.1) ? r.pick({-500.0, 0.0, 9000.0}) : r.uniform(-500, 9000);
  }
  static void drawLocal(Rng & r, Op & o)
  {
    double rad = r.pick({0.0, 0.001, 1.0, 100.0, 10000.0, 99999.0}); if (r.chance(0.5)) {rad = r.logUniform(0.001, 1e5);}
    double th = r.uniform(0, 6.283185307179586);
    o.e = rad * std::cos(th); o.n = rad * std::sin(th);
    o.u = r.chance(0.3) ? r.pick({-500.0, 0.0, 100.0, 10000.0}) : r.uniform(-1000, 10000);
  }
  Plan randomPlan(uint64_t runseed) const
  {
    Rng r(runseed);
    Plan p;
    int lonStyle = (int)r.below(5);
    double pReset = r.pick({0.0, 0.1, 0.3});
    if (pReset > 0) {SIM_COUNT("fault.reset_of_anchored_converter.configured");}
    int n = (int)r.range(1, r.chance(0.2) ? 40 : 12);
    for (int k = 0; k < n; ++k) {
      Op o; drawAnchor(r, lonStyle, o); drawLocal(r, o);
      if (r.chance(pReset)) {o.kind = RESET;} else {
        static const int kinds[] = {CONSTRUCT, CONSTRUCT_ANCHOR, SET_ANCHOR, SET_ANCHOR, TOENU_GEO, TOENU_GEO, TOENU_WGS84, TOENU_WGS84, TOENU_ECEF, TOECEF, TOWGS84, TOWGS84, OBSERVE, SET_OWN_ANCHOR, COPY};
        o.kind = r.pick(kinds);
        if (r.chance(0.06)) {o.kind = TOENU_GEO_AGAIN;}
        if (r.chance(0.06)) {o.kind = r.pick({(int)ASSIGN_ANCHORED, (int)ASSIGN_FRESH, (int)ASSIGN_RESET, (int)ASSIGN_SELF});}
      }
      p.ops.push_back(o);
      // bias: right after a reset, re-anchor somewhere else or auto-anchor
      if (o.kind == RESET && r.chance(0.7)) {
        Op o2; drawAnchor(r, lonStyle, o2); drawLocal(r, o2);
        o2.kind = r.pick({(int)SET_ANCHOR, (int)TOENU_GEO, (int)TOENU_WGS84});
        p.ops.push_back(o2);
      }
    }
    return p;
  }
  // heap contents are an input of the run like any other: every fresh allocation is filled with a byte chosen by the plan
  Plan generate(uint64_t index) const {Plan p = generate0(index); p.junk = (int)(mix64(master ^ 0x6a756e6bULL, index) % 5); return p;}
  Outcome execute(const Plan & p, Ctx & c) const {sim::junkHeap(p.junk); return execute0(p, c);}
  Json toJson(const Plan & p) const {Json j = toJson0(p); j.set("heap_fill_index", p.junk); return j;}
  Plan fromJson(const Json & j) const {Plan p = fromJson0(j); if (j.has("heap_fill_index")) {p.junk = (int)j["heap_fill_index"].i();} return p;}
  std::vector<Plan> simpler(const Plan & p) const {std::vector<Plan> out = simpler0(p); if (p.junk != 0) {Plan q = p; q.junk = 0; out.push_back(q);} return out;}
  Plan generate0(uint64_t index) const
  {
    if (index < scriptedPlans.size()) {return scriptedPlans[index];}
    return randomPlan(mix64(master, index - scriptedPlans.size()));
  }
  Outcome execute0(const Plan & p, Ctx & c) const {return runHistory(p, c);}

  Json toJson0(const Plan & p) const
  {
    Json j = Json::object(); Json ops = Json::array();
    for (auto & o : p.ops) {
      Json e = Json::object(); e.set("op", kOpName[o.kind]).set("kind", o.kind);
      e.set("geodetic", Json::arrayOf(std::vector<double> {o.lat, o.lon, o.alt})).set("local_enu_m", Json::arrayOf(std::vector<double> {o.e, o.n, o.u}));
      ops.push(e);
    }
    j.set("ops", ops);
    j.set("note", "'geodetic' is the anchor / absolute point (lat rad, lon rad, height m) used by constructing, anchoring and auto-anchoring ops; 'local_enu_m' is the point used for conversions, relative to the current anchor");
    return j;
  }
  Plan fromJson0(const Json & j) const
  {
    Plan p;
    for (auto & e : j["ops"].a()) {
      Op o; o.kind = (int)e["kind"].i(); o.lat = e["geodetic"][0].d(); o.lon = e["geodetic"][1].d(); o.alt = e["geodetic"][2].d();
      o.e = e["local_enu_m"][0].d(); o.n = e["local_enu_m"][1].d(); o.u = e["local_enu_m"][2].d();
      p.ops.push_back(o);
    }
    return p;
  }
  std::vector<Plan> simpler0(const Plan & p) const
  {
    std::vector<Plan> out;
    removalCandidates(p.ops, [&](std::vector<Op> v) {Plan q = p; q.ops = std::move(v); out.push_back(q);});
    for (size_t k = 0; k < p.ops.size(); ++k) {
      const Op & o = p.ops[k];
      if (o.e != 0 || o.n != 0 || o.u != 0) {
        Plan q = p; q.ops[k].e = q.ops[k].n = q.ops[k].u = 0; out.push_back(q);
        Plan q2 = p; q2.ops[k].e = std::trunc(o.e / 2); q2.ops[k].n = std::trunc(o.n / 2); q2.ops[k].u = std::trunc(o.u / 2);
        if (q2.ops[k].e != o.e || q2.ops[k].n != o.n || q2.ops[k].u != o.u) {out.push_back(q2);}
      }
      if (o.alt != 0) {Plan q = p; q.ops[k].alt = 0; out.push_back(q);}
      if (o.lat != 0) {Plan q = p; q.ops[k].lat = 0; out.push_back(q);}
    }
    return out;
  }
  uint64_t planSize(const Plan & p) const {return p.ops.size();}
  uint64_t shapeHash(const Plan & p) const
  {
    uint64_t h = 11;
    for (auto & o : p.ops) {h = mix64(h, (uint64_t)o.kind * 8 + (std::fabs(std::fabs(o.lon) - 3.14159265) < 0.1 ? 4 : 0) + (std::fabs(o.lat) > 1.4 ? 2 : 0) + (std::hypot(o.e, o.n) > 5e4 ? 1 : 0));}
    return h;
  }
  // non-trivial: a reset of an anchored converter followed by a new anchoring and a conversion
  bool nontrivial(const Plan & p) const
  {
    int st = 0;   // 0 nothing, 1 anchored, 2 reset after anchored, 3 re-anchored
    for (auto & o : p.ops) {
      bool anchors = o.kind == CONSTRUCT_ANCHOR || o.kind == SET_ANCHOR || o.kind == TOENU_GEO || o.kind == TOENU_WGS84;
      if (o.kind == CONSTRUCT) {st = 0;} else if (o.kind == RESET) {st = st == 1 || st == 3 ? 2 : st;} else if (anchors) {
        if (st == 2) {st = 3;} else if (st == 0) {st = 1;}
      }
      if (st == 3 && (o.kind >= TOENU_GEO)) {return true;}
    }
    return false;
  }
  std::string signature(const Plan & p, const Outcome & o) const
  {
    std::string s = o.cls + "|";
    for (auto & op : p.ops) {s += "CASRgwetloac"[op.kind];}
    return s;
  }
  std::vector<uint64_t> sampleIndexes() const
  {
    uint64_t s = scriptedPlans.size(); std::vector<uint64_t> v = {0};
    for (uint64_t k = 0, n = 0; k < 4000 && n < 3; ++k) {Plan p = randomPlan(mix64(master, k)); if (p.ops.size() >= 3 && p.ops.size() <= 7 && nontrivial(p)) {v.push_back(s + k); ++n;}}
    return v;
  }
  std::vector<std::string> probeNames() const
  {
    return {"set_anchor_replaces_existing_frame", "reset_of_unanchored_converter", "auto_anchor_after_reset", "auto_anchor_of_fresh_converter",
      "auto_anchor_wgs84_after_reset", "frame_checked_after_reset_and_reanchor", "anchor_within_0.1rad_of_antimeridian", "anchor_beyond_80deg_latitude",
      "local_point_beyond_90km", "set_anchor_with_own_anchor_reference", "continue_on_a_copy", "original_checked_after_its_copy_was_changed"};
  }
  Json describe() const
  {
    Json d = Json::object();
    d.set("rule",
      "A plan is a list of <= 40 ops on one converter: ENUConverter(), ENUConverter(anchor), setAnchor, reset, toENU(geodetic) (auto-anchors an "
      "un-anchored converter), toENU(WGS84), toENU(ecef), toECEF, toWGS84, plain observation, setAnchor(getAnchor()), continue on a copy / moved-to converter "
      "(the original stays alive and must not change), assignment from an anchored / pristine / reset converter and self-assignment. Every fresh allocation and "
      "the stack below the run are filled with a plan-chosen byte; default constructors are reached by default-initialisation. Anchors: |lat| <= 85 deg (15 % within 3 % of the limit), "
      "longitudes in [-pi, pi] (the library asserts this range): uniform / on 0, +-90, +-180 deg / within 1e-9..0.1 rad of the antimeridian, heights in [-500, 9000] m; local points "
      "up to 100 km horizontally and -1..10 km vertically; resets are biased to be followed by a re-anchoring elsewhere. After every op the complete "
      "frame check runs. distinct = distinct hash of (op kinds with anchor/point classes); non-trivial = reset of an anchored converter, then a new "
      "anchoring, then a conversion.");
    Json or_ = Json::array();
    or_.push("history clause (decided): isAnchored() equals the model flag; frame transform and conversions equal those of a fresh converter constructed on the model's anchor (un-anchored state = state of a fresh converter, so toENU(WGS84) after reset anchors at altitude 0)");
    or_.push("input clauses (sampled per step): rotation proper to 1e-12; columns = directions of increasing longitude / latitude / height (finite differences of an independent long-double forward map, 1e-8); anchor -> origin and 'h above' -> (0,0,h) within 1 mm; distances preserved to 1e-9 relative; ENU->ECEF->ENU and ENU->geodetic->ENU within 1 mm; agreement with the independent long-double geodesy within 1 mm");
    d.set("oracles", or_);
    Json comp = Json::object();
    comp.set("real_code", "ENUConverter.cpp, ECEFConverter.cpp, EarthEllipsoid.cpp, GeodeticCoordinates.cpp, WGS84Coordinates.cpp (g++ -O3, asserts on)");
    comp.set("stubs", "none; fresh twin = library code; reference geodesy = 40 lines of long double on the same ellipsoid constants");
    comp.set("scheduler", "not used (single owner)"); comp.set("clock", "not used");
    comp.set("faults", "restart-like events: reset() and re-anchoring at arbitrary points of the history");
    d.set("components", comp);
    d.set("exhaustive", false);
    Json as = Json::array();
    as.push("ops that assert(isAnchored) are enabled only when the model says anchored; otherwise they degrade to an observation");
    as.push("a latitude/longitude given to an anchored converter is taken at the altitude of the anchor; given to an un-anchored converter it anchors at altitude 0, as a fresh converter does");
    d.set("assumptions", as);
    return d;
  }
};

int main(int argc, char ** argv) {return simMain<PropC02>(argc, argv);}
