// Reference model of the value check-ups and of the status algebra, written
// from the statement of C18. Comparisons are made in binary128 so that
// target +- epsilon is exact; the sequential specification for C19 as well.
#pragma once
#include <cmath>
#include <sstream>
#include <string>
#include <vector>
#include <map>

namespace model {

enum Status {OK = 0, WARN = 1, ERROR = 2, STALE = 3};
inline const char * statusName(int s)
{
  static const char * n[] = {"OK", "WARN", "ERROR", "STALE"};
  return (s >= 0 && s < 4) ? n[s] : "?";
}
inline int worse(int a, int b) {return a > b ? a : b;}

enum Kind {EqualTo = 0, GreaterThan = 1, LowerThan = 2, Reliability = 3};
inline const char * kindName(int k)
{
  static const char * n[] = {"CheckupEqualTo", "CheckupGreaterThan", "CheckupLowerThan", "CheckupReliability"};
  return n[k];
}

// the print the library uses for the info entry: default-formatted stream output
inline std::string printValue(double v) {std::ostringstream os; os << v; return os.str();}

struct Verdict {int status; const char * suffix;};

// a = target / minimum / maximum / low threshold ; b = epsilon / high threshold
inline Verdict classifyWith(int kind, double v, __float128 lo, __float128 hi)
{
  __float128 x = v;
  switch (kind) {
    case EqualTo:
      if (x < lo) {return {ERROR, " is too low."};}
      if (x > hi) {return {ERROR, " is too high."};}
      return {OK, " is OK."};
    case GreaterThan:
      return x > lo ? Verdict {OK, " is OK."} : Verdict {ERROR, " is too low."};
    case LowerThan:
      return x < hi ? Verdict {OK, " is OK."} : Verdict {ERROR, " is too high."};
    default:
      if (x < lo) {return {ERROR, " is too low."};}
      if (x < hi) {return {WARN, " is uncertain."};}
      return {OK, " is high."};
  }
}
// exact thresholds of the statement
inline Verdict classify(int kind, double v, double a, double b)
{
  if (kind == Reliability) {return classifyWith(kind, v, a, b);}
  return classifyWith(kind, v, (__float128)a - (__float128)b, (__float128)a + (__float128)b);
}
// thresholds as double arithmetic rounds them (differs from classify() only if a +- b is inexact)
inline Verdict classifyRounded(int kind, double v, double a, double b)
{
  if (kind == Reliability) {return classifyWith(kind, v, a, b);}
  return classifyWith(kind, v, a - b, a + b);
}

struct ReportModel
{
  int status = STALE;
  std::string message;
  std::string value;
  bool operator==(const ReportModel & o) const
  {
    return status == o.status && message == o.message && value == o.value;
  }
};

struct CheckupModel
{
  int kind = EqualTo; std::string name; double a = 0, b = 0;
  ReportModel rep;   // initial: default diagnostic (STALE, "") and empty value
  CheckupModel() {}
  CheckupModel(int k, const std::string & n, double a_, double b_) : kind(k), name(n), a(a_), b(b_) {}
  int evaluate(double v)
  {
    Verdict vd = classify(kind, v, a, b);
    rep.status = vd.status; rep.message = name + vd.suffix; rep.value = printValue(v);
    return rep.status;
  }
  void timeout() {rep.status = STALE; rep.message = name + " timeout."; rep.value = "";}
};

}  // namespace model
