// Reference model of the rate monitor, written from the statement of C17:
//   W = clamp(floor(2 * expected rate), 4, 64);
//   rate is 0 until W+1 stamps have been seen, thereafter W / (time spanned by the last W periods);
//   a heartbeat more than 0.5 s after the last stamp forces the rate to 0 and reports a timeout,
//   any other heartbeat changes nothing.
// Also the sequential specification used by the concurrent check (C19).
#pragma once
#include <algorithm>
#include <cmath>
#include <cstdint>
#include <deque>

namespace model {

struct RateModel
{
  int W = 4;
  std::deque<int64_t> stamps;   // the last W+1 stamps
  uint64_t seen = 0;
  int64_t last = 0;
  double rate = 0;

  explicit RateModel(double expectedRate = 2.0) {init(expectedRate);}
  void init(double expectedRate)
  {
    double w = std::floor(2 * expectedRate);
    W = (int)std::min(64.0, std::max(4.0, w));
    stamps.clear(); seen = 0; last = 0; rate = 0;
  }
  double update(int64_t t)
  {
    stamps.push_back(t);
    if ((int)stamps.size() > W + 1) {stamps.pop_front();}
    ++seen; last = t;
    if ((int)stamps.size() == W + 1) {
      long double span = (long double)(stamps.back() - stamps.front());
      rate = (double)((long double)W * 1e9L / span);
    }
    return rate;
  }
  // returns true when the heartbeat is a timeout
  bool timeout(int64_t t)
  {
    if (seen > 0 && t - last > 500000000LL) {rate = 0; return true;}
    return false;
  }
  bool windowFull() const {return (int)stamps.size() == W + 1;}
};

}  // namespace model
