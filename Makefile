# Builds every check binary directly from $(REPO)'s working tree (default /repo;
# VERIF_REPO overrides it for the mutant self-test). Never uses /repo/_build.
REPO ?= $(if $(VERIF_REPO),$(VERIF_REPO),/repo)
ifeq ($(REPO),/repo)
B := build
else
B := build/alt$(subst /,_,$(REPO))
endif

CXX      := g++
EIGEN    := /usr/include/eigen3
INC      := -I$(REPO)/include -isystem $(EIGEN)
# repository objects: the flags of the repository's own CMakeLists (asserts stay on)
REPOFLAGS := -std=c++17 -O3 -g -Wall -Wextra $(INC) -MMD -MP
PROPFLAGS := -std=c++17 -O2 -g -Wall $(INC) -I. -MMD -MP
SANFLAGS  := -std=c++17 -O1 -g -fsanitize=address,undefined -fno-omit-frame-pointer $(INC) -I. -MMD -MP

E1E2 := C15 C16 C17 C18 C02 C07 C14
PROPS := $(filter $(E1E2),$(patsubst props/%.cpp,%,$(wildcard props/*.cpp)))

SRC_C15 :=
SRC_C16 := monitoring/OnlineAverage.cpp monitoring/OnlineVariance.cpp
SRC_DIAG := monitoring/RateMonitoring.cpp monitoring/OnlineAverage.cpp monitoring/OnlineVariance.cpp \
            diagnostics/CheckupRate.cpp diagnostics/CheckupReliability.cpp diagnostics/Diagnostic.cpp \
            diagnostics/DiagnosticReport.cpp diagnostics/DiagnosticStatus.cpp
SRC_C17 := $(SRC_DIAG)
SRC_C18 := $(SRC_DIAG) geodesy/WGS84Coordinates.cpp
SRC_C02 := geodesy/ENUConverter.cpp geodesy/ECEFConverter.cpp geodesy/EarthEllipsoid.cpp \
           geodesy/GeodeticCoordinates.cpp geodesy/WGS84Coordinates.cpp
SRC_C07 := regression/leastsquares/LeastSquares.cpp
SRC_C14 := containers/grid/RayTracing.cpp containers/grid/GridIndexMapping.cpp

.PHONY: all clean e3
all: $(addprefix $(B)/,$(PROPS)) $(addsuffix .nd,$(addprefix $(B)/,$(PROPS))) e3

# --- repository objects (plain and sanitized)
$(B)/repo/%.o: $(REPO)/src/%.cpp
	@mkdir -p $(dir $@)
	$(CXX) $(REPOFLAGS) -c $< -o $@
$(B)/repo-san/%.o: $(REPO)/src/%.cpp
	@mkdir -p $(dir $@)
	$(CXX) $(SANFLAGS) -c $< -o $@

# --- the same with assertions compiled out (-DNDEBUG, as in the repository's RelWithDebInfo / Release builds)
$(B)/repo-nd/%.o: $(REPO)/src/%.cpp
	@mkdir -p $(dir $@)
	$(CXX) $(REPOFLAGS) -DNDEBUG -c $< -o $@
$(B)/props-nd/%.o: props/%.cpp
	@mkdir -p $(dir $@)
	$(CXX) $(PROPFLAGS) -DNDEBUG -c $< -o $@

# --- property objects
$(B)/props/%.o: props/%.cpp
	@mkdir -p $(dir $@)
	$(CXX) $(PROPFLAGS) -c $< -o $@
$(B)/props-san/%.o: props/%.cpp
	@mkdir -p $(dir $@)
	$(CXX) $(SANFLAGS) -c $< -o $@

define PROP_RULE
$(B)/$(1): $(B)/props/$(1).o $$(addprefix $(B)/repo/,$$(SRC_$(1):.cpp=.o))
	$(CXX) -o $$@ $$^ -lpthread
$(B)/$(1).san: $(B)/props-san/$(1).o $$(addprefix $(B)/repo-san/,$$(SRC_$(1):.cpp=.o))
	$(CXX) -fsanitize=address,undefined -o $$@ $$^ -lpthread
$(B)/$(1).nd: $(B)/props-nd/$(1).o $$(addprefix $(B)/repo-nd/,$$(SRC_$(1):.cpp=.o))
	$(CXX) -o $$@ $$^ -lpthread
endef
$(foreach p,$(E1E2),$(eval $(call PROP_RULE,$(p))))

-include sim/sched/e3.mk

clean:
	rm -rf build

-include $(shell find $(B) -name '*.d' 2>/dev/null)
