#!/bin/bash
# Confirms a batch of seeded changes in 3 parallel slots (scratch worktrees, VERIF_REPO mode; /repo is not touched).
# usage: tools/confirm_batch.sh <root with {id}/_mutation/{X}> <log> <list of "id X" pairs...>   e.g. /tmp/w5- log "C02 A" "C02 B"
ROOT="$1"; LOG="$2"; shift 2
: > "$LOG"
i=0
for pair in "$@"; do
  slot=$((i % 3)); i=$((i + 1))
  echo "$pair" >> "/var/tmp/confirm-slot$slot.list"
done
for slot in 0 1 2; do
  [ -f "/var/tmp/confirm-slot$slot.list" ] || continue
  ( while read -r id x; do
      echo "=== $id $x"; SLOT=$slot CONFIRM_JOBS=6 CONFIRM_VIA_WORKTREE=1 VERIF_WORKERS=6 /verif/tools/confirm_seeded.sh "$ROOT$id/_mutation/$x" "$id" 2>&1 | tail -9
    done < "/var/tmp/confirm-slot$slot.list" > "/var/tmp/confirm-slot$slot.log" 2>&1 ) &
done
wait
cat /var/tmp/confirm-slot0.log /var/tmp/confirm-slot1.log /var/tmp/confirm-slot2.log > "$LOG" 2>/dev/null
rm -f /var/tmp/confirm-slot*.list /var/tmp/confirm-slot*.log
for slot in 0 1 2; do git -C /repo worktree remove --force /var/tmp/verif-seed-wt$slot 2>/dev/null; rm -rf /var/tmp/verif-seed-build$slot* /var/tmp/verif-seed-out$slot* /var/tmp/verif-seed-demo-*$slot*; done
git -C /repo worktree prune
rm -rf /verif/build/alt_var_tmp_verif-seed-wt*
grep -E "===|RESULT" "$LOG" | cut -c1-160
