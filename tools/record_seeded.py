#!/usr/bin/env python3
"""Copies confirmed seeded changes from the agents' worktrees into /verif/seeded/<id>-<X>/ with meta.json.
Input: the logs written by tools/confirm_seeded.sh (sections '=== <id> <X>' ... 'RESULT ...')."""
import json, os, re, shutil, sys
# usage: record_seeded.py [--src '/tmp/w2-{pid}/_mutation/{x}'] [--rename A=C,B=D] logs...
args = sys.argv[1:]; SRC = '/tmp/wt-{pid}/_mutation/{x}'; REN = {}
while args and args[0].startswith('--'):
    if args[0] == '--src': SRC = args[1]
    if args[0] == '--rename': REN = dict(kv.split('=') for kv in args[1].split(','))
    args = args[2:]
logs = args
text = ''.join(open(l).read() for l in logs)
out = {}
for m in re.finditer(r'=== (C\d+) ([A-Z])\n(.*?)(?==== |\Z)', text, re.S):
    pid, x, body = m.group(1), m.group(2), m.group(3)
    r = re.search(r"RESULT tests='([^']*)' demo_mut=(\d+) demo_clean=(\d+) check_exit=(\d+)", body)
    if not r: continue
    classes = re.findall(r'class=(\S+)', body)
    out[(pid, x)] = dict(tests=r.group(1), demo_mut=int(r.group(2)), demo_clean=int(r.group(3)), check_exit=int(r.group(4)), classes=classes)
for (pid, x), v in sorted(out.items()):
    src = SRC.format(pid=pid, x=x)
    dst = f'/verif/seeded/{pid}-{REN.get(x, x)}'
    confirmed = v['tests'].startswith('100% tests passed') and v['demo_mut'] != 0 and v['demo_clean'] == 0
    if not confirmed:
        print(f'{pid}-{x}: NOT confirmed {v}'); continue
    os.makedirs(dst, exist_ok=True)
    for f in ('patch.diff', 'demo.cpp', 'notes.md'):
        if os.path.exists(f'{src}/{f}'): shutil.copy(f'{src}/{f}', f'{dst}/{f}')
    notes = open(f'{dst}/notes.md').read() if os.path.exists(f'{dst}/notes.md') else ''
    meta_path = f'{dst}/meta.json'
    old = json.load(open(meta_path)) if os.path.exists(meta_path) else {}
    meta = dict(property=pid, origin='fresh sub-agent given only the property text and a scratch worktree',
                needs_to_manifest=old.get('needs_to_manifest', ''),
                confirmed_by='tools/confirm_seeded.sh: patch applied to a scratch worktree, repository test suite rebuilt and run, demo built against changed and clean library; then git -C /repo apply, ./check %s quick, git -C /repo checkout -- .' % pid,
                existing_tests_with_change=v['tests'], demo_exit_with_change=v['demo_mut'], demo_exit_without_change=v['demo_clean'],
                quick_check_exit_with_change=v['check_exit'], detected_by_quick_check=v['check_exit'] == 1, violation_classes=v['classes'])
    meta.update({k: old[k] for k in ('needs_to_manifest', 'strengthening', 'detected_after_strengthening') if k in old and old[k]})
    json.dump(meta, open(meta_path, 'w'), indent=1)
    print(f"{pid}-{x}: confirmed, quick check exit {v['check_exit']} {v['classes'][:2]}")
