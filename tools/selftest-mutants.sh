#!/bin/bash
# Sensitivity self-test: applies each /verif/mutants/*.patch to a scratch copy of /repo under /var/tmp,
# runs the QUICK check of the property it targets against that copy (VERIF_REPO), and compares the exit
# status with the expected one (1 = must be detected, 0 = harmless change must stay silent).
# usage: tools/selftest-mutants.sh [name-filter-regex]   -> /verif/selftest/mutants.json
set -u
cd /verif
FILTER="${1:-.}"
SCRATCH=/var/tmp/verif-mutant-repo
OUT=/var/tmp/verif-mutant-out
rm -rf "$SCRATCH" "$OUT"; mkdir -p "$SCRATCH" "$OUT" /verif/selftest
rsync -a --exclude _build --exclude .git /repo/ "$SCRATCH"/
trap 'rm -rf "$SCRATCH" "$OUT" "/verif/build/alt_var_tmp_verif-mutant-repo"' EXIT
python3 - "$FILTER" "$SCRATCH" "$OUT" <<'PY'
import json, os, re, subprocess, sys, time
flt, scratch, out = sys.argv[1], sys.argv[2], sys.argv[3]
index = json.load(open('/verif/mutants/index.json'))
rows = []; bad = 0
for m in index:
    if not re.search(flt, m['name']): continue
    patch = f"/verif/mutants/{m['name']}.patch"
    r = subprocess.run(['patch', '-p1', '-s', '-d', scratch, '-i', patch], capture_output=True, text=True)
    if r.returncode != 0:
        print(f"{m['name']}: patch does not apply: {r.stdout} {r.stderr}"); bad += 1; continue
    t0 = time.time()
    env = dict(os.environ, VERIF_REPO=scratch, VERIF_OUT=out, VERIF_SEED=os.environ.get('VERIF_SEED', '1'))
    c = subprocess.run(['./check', m['property'], 'quick'], capture_output=True, text=True, env=env)
    dt = time.time() - t0
    classes = sorted(set(re.findall(r'class=(\S+)', c.stdout)))
    first = re.findall(r'run_index=(\d+)', c.stdout)
    ok = c.returncode == m['expect_exit']
    if not ok: bad += 1
    rows.append(dict(mutant=m['name'], property=m['property'], expected_exit=m['expect_exit'], exit=c.returncode, as_expected=ok,
                     classes=classes[:6], first_violating_run=min(map(int, first)) if first else None, seconds=round(dt, 1), why=m.get('why', '')))
    print(f"{'ok  ' if ok else 'MISS'} {m['name']:45s} {m['property']} exit={c.returncode} expected={m['expect_exit']} {dt:5.1f}s {classes[:2]}", flush=True)
    if not ok: print(c.stdout[-1500:])
    subprocess.run(['patch', '-p1', '-R', '-s', '-d', scratch, '-i', patch], check=True)
res = dict(seed=int(os.environ.get('VERIF_SEED', '1')), mutants=len(rows), as_expected=sum(r['as_expected'] for r in rows), rows=rows)
if flt == '.': json.dump(res, open('/verif/selftest/mutants.json', 'w'), indent=1)
print(f"{res['as_expected']}/{res['mutants']} mutants gave the expected verdict")
sys.exit(1 if bad else 0)
PY
