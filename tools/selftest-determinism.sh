#!/bin/bash
# Determinism self-test: the same VERIF_SEED must give bit-identical event logs whatever the number of
# worker processes and however often it is repeated (ASLR on, fresh processes). The batch digest is the
# sum over runs of mix(run index, hash of the run's event log), so it does not depend on how runs are
# distributed over workers. usage: tools/selftest-determinism.sh [runs-per-property]
set -u
cd /verif
N="${1:-2000}"
mkdir -p selftest
fail=0
rows=""
for id in C02 C07 C14 C15 C16 C17 C18 C19; do
  make -s -j16 "build/$id" >/dev/null 2>&1 || { echo "build of $id failed"; exit 2; }
  ref=""
  for seed in 1 7; do
    dig=""
    for w in 1 4 16 16; do
      d=$(VERIF_OUT=/var/tmp/verif-det-out VERIF_SEED=$seed "build/$id" quick --workers $w --max-runs "$N" --digest-only 2>&1 | grep '^DIGEST' | awk '{print $2}')
      if [ -z "$d" ]; then echo "$id seed=$seed workers=$w: no digest"; fail=1; fi
      if [ -z "$dig" ]; then dig="$d"; elif [ "$dig" != "$d" ]; then echo "MISMATCH $id seed=$seed workers=$w: $d vs $dig"; fail=1; fi
    done
    echo "$id seed=$seed runs=$N digest=$dig (workers 1,4,16,16 agree)"
    rows="$rows{\"property\":\"$id\",\"seed\":$seed,\"runs\":$N,\"digest\":\"$dig\"},"
    # (the first runs of C15 are the scripted plans and the bijective sweep, which do not depend on the seed)
    if [ -z "$ref" ]; then ref="$dig"; elif [ "$ref" = "$dig" ] && [ "$id" != "C15" ]; then echo "SUSPICIOUS $id: seeds 1 and 7 give the same digest"; fail=1; fi
  done
done
rm -rf /var/tmp/verif-det-out
echo "{\"ok\":$([ $fail = 0 ] && echo true || echo false),\"rows\":[${rows%,}]}" > selftest/determinism.json
[ $fail = 0 ] && echo "determinism: OK" || echo "determinism: FAILED"
exit $fail
