#!/bin/bash
# Confirms a seeded change independently: tools/confirm_seeded.sh <dir with patch.diff demo.cpp> <property id>
# 1. applies the patch to a scratch worktree of /repo, rebuilds the repository's test suite, runs it (must pass)
# 2. builds the demo against the changed tree (must FAIL) and against the clean tree (must PASS)
# 3. applies the patch to /repo, runs ./check <id> quick (VERIF_OUT scratch), and undoes the patch
set -u
DIR="$1"; ID="$2"
S="${SLOT:-0}"; WT=/var/tmp/verif-seed-wt$S; BD=/var/tmp/verif-seed-build$S; OUT=/var/tmp/verif-seed-out$S
if [ ! -d "$WT" ]; then git -C /repo worktree add -q --detach "$WT" HEAD || exit 2; fi
git -C "$WT" checkout -q --detach "$(git -C /repo rev-parse HEAD)" && git -C "$WT" checkout -q -- . 
git -C "$WT" apply "$DIR/patch.diff" || { echo "RESULT patch does not apply"; exit 2; }
cmake -S "$WT" -B "$BD" -G Ninja -DCMAKE_BUILD_TYPE=RelWithDebInfo -DCMAKE_CXX_FLAGS=-Wno-error >/dev/null 2>&1
if ! cmake --build "$BD" -j${CONFIRM_JOBS:-16} >"$BD.log" 2>&1; then echo "RESULT does not compile"; tail -5 "$BD.log"; git -C "$WT" checkout -q -- .; exit 1; fi
T=$(ctest --test-dir "$BD" -j8 2>&1 | grep "tests passed")
echo "tests with change: $T"
# demo: link against the library cmake just built for the changed tree, then rebuild for the clean tree
build_demo() { g++ -std=c++17 -O1 -pthread -I"$WT/include" -isystem /usr/include/eigen3 "$DIR/demo.cpp" -L"$BD" -lromea_core_common -Wl,-rpath,"$BD" -o "$1" 2>"$1.log"; }
build_demo /var/tmp/verif-seed-demo-mut$S || { echo "demo does not compile (mutated)"; head -5 /var/tmp/verif-seed-demo-mut$S.log; }
timeout 300 /var/tmp/verif-seed-demo-mut$S >/var/tmp/verif-seed-demo-mut$S.out 2>&1; M=$?
git -C "$WT" checkout -q -- .
cmake --build "$BD" -j${CONFIRM_JOBS:-16} --target romea_core_common >>"$BD.log" 2>&1
build_demo /var/tmp/verif-seed-demo-clean$S || { echo "demo does not compile (clean)"; head -5 /var/tmp/verif-seed-demo-clean$S.log; }
timeout 300 /var/tmp/verif-seed-demo-clean$S >/var/tmp/verif-seed-demo-clean$S.out 2>&1; C=$?
echo "demo exit with change: $M ; without: $C"
# our check with the change applied: literally on /repo (default), or - while something else is using /repo -
# on the scratch worktree through VERIF_REPO (CONFIRM_VIA_WORKTREE=1); tools/run_seeded.sh later repeats it on /repo
rm -rf "$OUT"
if [ "${CONFIRM_VIA_WORKTREE:-0}" = 1 ]; then
  git -C "$WT" apply "$DIR/patch.diff" || { echo "RESULT patch does not apply"; exit 2; }
  ( cd /verif && VERIF_REPO="$WT" VERIF_OUT="$OUT" ./check "$ID" quick > "$OUT.log" 2>&1 ); K=$?
  git -C "$WT" checkout -q -- .
else
  git -C /repo apply "$DIR/patch.diff" || { echo "RESULT patch does not apply to /repo"; exit 2; }
  ( cd /verif && VERIF_OUT="$OUT" ./check "$ID" quick > "$OUT.log" 2>&1 ); K=$?
  git -C /repo checkout -- .
fi
echo "check $ID quick exit: $K"; grep -E "^VIOLATION|class=|HARNESS|BUILD" "$OUT.log" | head -8
echo "RESULT tests='$T' demo_mut=$M demo_clean=$C check_exit=$K"
