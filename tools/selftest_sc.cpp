// Cross-check of the sequential-explainability search used by C19 (greedy rule + memoisation) against
// a brute-force enumeration of all interleavings, on random small histories:
//   1. histories produced by executing the ops atomically on the model in a random order, with overlapping
//      invocation/return stamps, must be accepted (sequentially consistent AND linearizable);
//   2. after corrupting one observed value, the search and the brute force must give the same verdict.
// Exit 0 when every comparison agrees.
#include <cstdio>
#include <cstdlib>
#include <algorithm>
#include "../props/C19_sc.hpp"
using namespace c19;

static bool brute(const std::vector<std::vector<Rec>> & h, std::vector<size_t> & pos, const SeqModel & m, bool realTime)
{
  bool done = true;
  for (size_t k = 0; k < h.size(); ++k) {if (pos[k] < h[k].size()) {done = false;}}
  if (done) {return true;}
  for (size_t k = 0; k < h.size(); ++k) {
    if (pos[k] >= h[k].size()) {continue;}
    const Rec & x = h[k][pos[k]];
    if (realTime) {
      bool blocked = false;
      for (size_t j = 0; j < h.size(); ++j) {if (j != k && pos[j] < h[j].size() && h[j][pos[j]].ret < x.inv) {blocked = true;}}
      if (blocked) {continue;}
    }
    SeqModel m2 = m;
    if (!m2.apply(x)) {continue;}
    ++pos[k]; bool ok = brute(h, pos, m2, realTime); --pos[k];
    if (ok) {return true;}
  }
  return false;
}

int main(int argc, char ** argv)
{
  uint64_t seed = argc > 1 ? strtoull(argv[1], nullptr, 10) : 1; int rounds = argc > 2 ? atoi(argv[2]) : 20000;
  sim::Rng r(seed);
  long accepted = 0, corrupted = 0, corruptedRejected = 0, disagreements = 0, notAccepted = 0;
  for (int it = 0; it < rounds; ++it) {
    Plan p; p.scenario = (int)r.below(S_COUNT); const int sc = p.scenario;
    p.W = (int)r.range(sc == S_ONLINE_VAR ? 2 : 1, 3);
    switch (sc) {case S_RELIABILITY: p.a = 0.25; p.b = 0.75; break; case S_RATE_MON: p.a = 2; p.b = 0; break;
      case S_CHECKUP_RATE_EQ: case S_CHECKUP_RATE_GT: p.a = 2; p.b = 0.5; break; default: p.a = 10; p.b = 1;}
    // per-thread op kinds
    int nThreads = (int)r.range(2, 4); std::vector<std::vector<Rec>> h((size_t)nThreads);
    int64_t t = 1000000000LL; uint64_t seq = 1; int total = 0;
    for (int k = 0; k < nThreads; ++k) {
      int n = (int)r.range(1, 3);
      for (int i = 0; i < n && total < 9; ++i, ++total) {
        Rec rec; rec.task = k; rec.index = i;
        bool writer = k == 0, dog = k == 1 && r.chance(0.5);
        switch (sc) {
          case S_SHARED_VAR: rec.kind = writer ? O_STORE : O_LOAD; rec.seq = seq++; break;
          case S_SHARED_OPT: rec.kind = (k % 2 == 0) ? O_STORE : O_CONSUME; rec.seq = ((uint64_t)(k + 1) << 32) | seq++; break;
          case S_ONLINE_AVG: case S_ONLINE_VAR:
            rec.kind = writer ? (r.chance(0.2) ? O_RESET : O_UPDATE) : (int)r.pick({(int)O_GET_AVG, (int)O_IS_AVAIL, sc == S_ONLINE_VAR ? (int)O_GET_VAR : (int)O_GET_AVG});
            rec.v = std::ldexp(1.0, (int)seq++); break;
          case S_CHECKUP_EQ: case S_CHECKUP_GT: case S_CHECKUP_LT: case S_RELIABILITY:
            rec.kind = writer ? O_EVALUATE : (dog && sc != S_RELIABILITY ? O_TIMEOUT : O_GET_REPORT);
            rec.v = sc == S_RELIABILITY ? (double)r.below(17) / 16 : 7.5 + 0.25 * (double)r.below(24); break;
          case S_RATE_MON:
            rec.kind = writer ? O_RM_UPDATE : (dog ? O_RM_TIMEOUT : O_RM_GET_RATE);
            if (writer) {t += (int64_t)r.pick({100000000LL, 400000000LL, 700000000LL}); rec.t = t;} else {rec.t = 1000000000LL + (int64_t)r.below(3000000000ULL);}
            break;
          default:
            rec.kind = writer ? O_CR_EVALUATE : (dog ? O_CR_HEARTBEAT : O_CR_GET_REPORT);
            if (writer) {t += (int64_t)r.pick({100000000LL, 400000000LL, 700000000LL}); rec.t = t;} else {rec.t = 1000000000LL + (int64_t)r.below(3000000000ULL);}
        }
        h[(size_t)k].push_back(rec);
      }
    }
    // atomic execution in a random order; stamps: inv drawn before, ret after the linearisation point
    SeqModel m; m.init(p);
    std::vector<size_t> pos(h.size(), 0); uint64_t clock = 0;
    std::vector<uint64_t> invAt(h.size(), 0);
    for (;; ) {
      std::vector<size_t> cand; for (size_t k = 0; k < h.size(); ++k) {if (pos[k] < h[k].size()) {cand.push_back(k);}}
      if (cand.empty()) {break;}
      // some threads invoke early (overlap)
      for (size_t k : cand) {if (h[k][pos[k]].inv == 0 && r.chance(0.5)) {h[k][pos[k]].inv = ++clock;}}
      size_t k = cand[r.below(cand.size())]; Rec & x = h[k][pos[k]];
      if (x.inv == 0) {x.inv = ++clock;}
      m.perform(x);            // linearisation point
      x.ret = ++clock; ++pos[k];
    }
    SeqModel m0; m0.init(p);
    for (int rt = 0; rt < 2; ++rt) {
      ScSearch s(h, rt == 1); std::vector<size_t> z(h.size(), 0);
      if (!s.go(z, m0) || s.gaveUp) {++notAccepted; printf("NOT ACCEPTED (realTime=%d) iteration %d scenario %s\n", rt, it, scenarioName(sc));}
    }
    ++accepted;
    // corrupt one observation
    std::vector<Rec *> obs; for (auto & th : h) {for (auto & x : th) {if (x.kind != O_STORE && x.kind != O_UPDATE && x.kind != O_RESET && x.kind != O_TIMEOUT) {obs.push_back(&x);}}}
    if (obs.empty()) {continue;}
    Rec & c = *obs[r.below(obs.size())];
    switch (c.kind) {
      case O_LOAD: c.outSeq = r.below(6); break;
      case O_CONSUME: if (r.chance(0.5)) {c.has = !c.has;} c.outSeq = ((uint64_t)r.range(1, 4) << 32) | r.below(8); break;
      case O_IS_AVAIL: case O_RM_TIMEOUT: case O_CR_HEARTBEAT: c.flag = !c.flag; break;
      case O_GET_AVG: case O_GET_VAR: case O_RM_GET_RATE: case O_RM_UPDATE: c.out = r.chance(0.5) ? 0 : c.out * 2 + 1; break;
      case O_EVALUATE: case O_CR_EVALUATE: c.status = (c.status + 1 + (int)r.below(3)) % 4; break;
      default: if (r.chance(0.5)) {c.status = (c.status + 1) % 4;} else {c.val = c.val.empty() ? "9.5" : "";}
    }
    ++corrupted;
    for (int rt = 0; rt < 2; ++rt) {
      ScSearch s(h, rt == 1); std::vector<size_t> z(h.size(), 0); bool fast = s.go(z, m0);
      std::vector<size_t> z2(h.size(), 0); bool slow = brute(h, z2, m0, rt == 1);
      if (fast != slow) {++disagreements; printf("DISAGREE (realTime=%d) iteration %d scenario %s: search=%d brute force=%d\n", rt, it, scenarioName(sc), fast, slow);}
      if (rt == 0 && !slow) {++corruptedRejected;}
    }
  }
  printf("sc self-test seed=%llu: %ld atomic histories accepted, %ld not accepted; %ld corrupted histories, %ld of them rejected, %ld disagreements with brute force\n",
    (unsigned long long)seed, accepted, notAccepted, corrupted, corruptedRejected, disagreements);
  return (notAccepted || disagreements) ? 1 : 0;
}
