#!/bin/bash
# Cross-checks C19's sequential-consistency / linearizability search against brute force (see tools/selftest_sc.cpp)
cd /verif && mkdir -p build selftest && g++ -std=c++17 -O2 -I. tools/selftest_sc.cpp -o build/selftest_sc || exit 2
rc=0; : > selftest/sc.txt
for s in ${VERIF_SEED:-1} 2 3; do build/selftest_sc "$s" "${1:-30000}" | tail -3 | tee -a selftest/sc.txt; [ "${PIPESTATUS[0]}" = 0 ] || rc=1; done
exit $rc
