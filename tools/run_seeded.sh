#!/bin/bash
# Re-runs the registered QUICK check of every kept seeded change with the change applied and rewrites selftest/seeded.json.
# Default: literally on /repo, one after the other (git -C /repo apply ... ; ./check ... ; git -C /repo checkout -- .).
# SEEDED_SLOTS=N (N > 1): N scratch worktrees of /repo's HEAD under /var/tmp, each given every N-th change through
# VERIF_REPO (same build rules, same checks; /repo itself is not touched); the worktrees are removed afterwards.
# usage: tools/run_seeded.sh [filter-regex]
cd /verif
N=${SEEDED_SLOTS:-1}
[ -z "$(git -C /repo status --porcelain --untracked-files=no)" ] || { echo "/repo has uncommitted changes"; exit 2; }
mkdir -p selftest
FILTER="${1:-}"
list=(); for d in seeded/C*/; do n=$(basename "$d"); if [ -n "$FILTER" ] && ! echo "$n" | grep -qE "$FILTER"; then continue; fi; list+=("$n"); done

props_of() {  # the property the change was written against, plus every other claimed property whose anchored files it touches
  python3 - "$1" "$2" <<'PY'
import json,re,sys
files=set(re.findall(r'^\+\+\+ b/(\S+)', open(sys.argv[1]).read(), re.M))
claimed=[l.strip() for l in open('/verif/tools/built.txt') if l.strip()]
out=[sys.argv[2]]
for l in open('/verif/properties.jsonl'):
    p=json.loads(l)
    if p['id'] in claimed and p['id'] not in out and files & set(p['anchors']['files']): out.append(p['id'])
print(' '.join(out))
PY
}

run_slot() {  # $1 = slot, $2 = tree to patch
  local slot=$1 tree=$2 i=0 n id rc cls per r q t0 out=/var/tmp/verif-seeded-out$1
  : > /var/tmp/verif-seeded-rows$slot
  for n in "${list[@]}"; do
    i=$((i + 1)); [ $(( (i - 1) % N )) -eq "$slot" ] || continue
    id=${n%-*}
    if ! git -C "$tree" apply "/verif/seeded/$n/patch.diff"; then echo "$n: patch does not apply"; echo "{\"seeded\":\"$n\",\"property\":\"$id\",\"quick_check_exit\":2,\"classes\":\"patch does not apply\"}" >> /var/tmp/verif-seeded-rows$slot; continue; fi
    t0=$(date +%s); rc=0; cls=""; per=""
    for q in $(props_of "/verif/seeded/$n/patch.diff" "$id"); do
      if [ "$tree" = /repo ]; then VERIF_OUT=$out ./check "$q" quick > $out.log 2>&1; r=$?; else
        VERIF_REPO="$tree" VERIF_WORKERS=$(( 16 / N > 4 ? 16 / N : 4 )) VERIF_OUT=$out ./check "$q" quick > $out.log 2>&1; r=$?; fi
      per="$per $q=$r"
      [ $r -eq 1 ] && { rc=1; cls="$cls$(grep -o 'class=[^ ]*' $out.log | sort -u | head -3 | tr '\n' ' ')"; }
      [ $r -ge 2 ] && [ $rc -eq 0 ] && rc=$r
      [ $rc -eq 1 ] && break
    done
    git -C "$tree" checkout -- .
    cls="$per | $cls"
    echo "$n: quick check exit $rc ($(( $(date +%s) - t0 )) s) $cls"
    echo "{\"seeded\":\"$n\",\"property\":\"$id\",\"quick_check_exit\":$rc,\"classes\":\"$cls\"}" >> /var/tmp/verif-seeded-rows$slot
  done
  rm -rf $out $out.log
}

if [ "$N" -le 1 ]; then N=1; run_slot 0 /repo; else
  for s in $(seq 0 $((N - 1))); do
    wt=/var/tmp/verif-rs-wt$s; git -C /repo worktree remove --force $wt 2>/dev/null; rm -rf $wt
    git -C /repo worktree add -q --detach $wt HEAD || exit 2
    run_slot $s $wt &
  done
  wait
  for s in $(seq 0 $((N - 1))); do git -C /repo worktree remove --force /var/tmp/verif-rs-wt$s; rm -rf "build/alt_var_tmp_verif-rs-wt$s"; done
  git -C /repo worktree prune
fi
rows=$(cat /var/tmp/verif-seeded-rows* | sort | paste -sd, -); rm -f /var/tmp/verif-seeded-rows*
miss=0; echo "$rows" | grep -qE '"quick_check_exit":(0|[2-9])' && miss=1
mode=$([ "$N" -le 1 ] && echo "applied to /repo" || echo "applied to $N scratch worktrees of /repo HEAD (VERIF_REPO)")
if [ -z "$FILTER" ]; then echo "{\"all_detected\":$([ $miss = 0 ] && echo true || echo false),\"mode\":\"$mode\",\"rows\":[$rows]}" > selftest/seeded.json; fi
exit $miss
