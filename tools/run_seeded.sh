#!/bin/bash
# Re-runs the registered QUICK check of every kept seeded change against /repo with the change applied
# (git -C /repo apply ... ; ./check ... ; git -C /repo checkout -- .) and rewrites selftest/seeded.json.
# usage: tools/run_seeded.sh [filter-regex]
cd /verif
[ -z "$(git -C /repo status --porcelain --untracked-files=no)" ] || { echo "/repo has uncommitted changes"; exit 2; }
mkdir -p selftest; rows=""; miss=0
for d in seeded/C*/; do
  n=$(basename "$d"); id=${n%-*}
  if [ -n "${1:-}" ] && ! echo "$n" | grep -qE "$1"; then continue; fi
  git -C /repo apply "/verif/${d}patch.diff" || { echo "$n: patch does not apply"; miss=1; continue; }
  t0=$(date +%s)
  # the property the change was written against, plus every other claimed property whose anchored files it touches
  props=$(python3 - "/verif/${d}patch.diff" "$id" <<'PY'
import json,re,sys
files=set(re.findall(r'^\+\+\+ b/(\S+)', open(sys.argv[1]).read(), re.M))
claimed=[l.strip() for l in open('/verif/tools/built.txt') if l.strip()]
out=[sys.argv[2]]
for l in open('/verif/properties.jsonl'):
    p=json.loads(l)
    if p['id'] in claimed and p['id'] not in out and files & set(p['anchors']['files']): out.append(p['id'])
print(' '.join(out))
PY
)
  rc=0; cls=""; per=""
  for q in $props; do
    VERIF_OUT=/var/tmp/verif-seeded-out ./check "$q" quick > /var/tmp/verif-seeded-out.log 2>&1; r=$?
    per="$per $q=$r"
    [ $r -eq 1 ] && { rc=1; cls="$cls$(grep -o 'class=[^ ]*' /var/tmp/verif-seeded-out.log | sort -u | head -3 | tr '\n' ' ')"; }
    [ $r -ge 2 ] && [ $rc -eq 0 ] && rc=$r
    [ $rc -eq 1 ] && break
  done
  git -C /repo checkout -- .
  cls="$per | $cls"
  echo "$n: quick check exit $rc ($(( $(date +%s) - t0 )) s) $cls"
  [ $rc -eq 1 ] || miss=1
  rows="$rows{\"seeded\":\"$n\",\"property\":\"$id\",\"quick_check_exit\":$rc,\"classes\":\"$cls\"},"
done
rm -rf /var/tmp/verif-seeded-out /var/tmp/verif-seeded-out.log
if [ -z "${1:-}" ]; then echo "{\"all_detected\":$([ $miss = 0 ] && echo true || echo false),\"rows\":[${rows%,}]}" > selftest/seeded.json; fi
exit $miss
