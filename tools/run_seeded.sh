#!/bin/bash
# Re-runs the registered QUICK check of every kept seeded change against /repo with the change applied
# (git -C /repo apply ... ; ./check ... ; git -C /repo checkout -- .) and rewrites selftest/seeded.json.
# usage: tools/run_seeded.sh [filter-regex]
cd /verif
[ -z "$(git -C /repo status --porcelain --untracked-files=no)" ] || { echo "/repo has uncommitted changes"; exit 2; }
mkdir -p selftest; rows=""; miss=0
for d in seeded/*/; do
  n=$(basename "$d"); id=${n%-*}
  if [ -n "${1:-}" ] && ! echo "$n" | grep -qE "$1"; then continue; fi
  git -C /repo apply "/verif/${d}patch.diff" || { echo "$n: patch does not apply"; miss=1; continue; }
  t0=$(date +%s)
  VERIF_OUT=/var/tmp/verif-seeded-out ./check "$id" quick > /var/tmp/verif-seeded-out.log 2>&1; rc=$?
  git -C /repo checkout -- .
  cls=$(grep -o 'class=[^ ]*' /var/tmp/verif-seeded-out.log | sort -u | head -4 | tr '\n' ' ')
  echo "$n: quick check exit $rc ($(( $(date +%s) - t0 )) s) $cls"
  [ $rc -eq 1 ] || miss=1
  rows="$rows{\"seeded\":\"$n\",\"property\":\"$id\",\"quick_check_exit\":$rc,\"classes\":\"$cls\"},"
done
rm -rf /var/tmp/verif-seeded-out /var/tmp/verif-seeded-out.log
if [ -z "${1:-}" ]; then echo "{\"all_detected\":$([ $miss = 0 ] && echo true || echo false),\"rows\":[${rows%,}]}" > selftest/seeded.json; fi
exit $miss
