#!/bin/bash
# Runs the repository's own 147-test suite from /repo's working tree with the
# verification guard OFF (no check needs a hook, so there is nothing to switch).
# Builds out of tree under /var/tmp and removes the build afterwards.
set -e
REPO="${VERIF_REPO:-/repo}"
D=$(mktemp -d /var/tmp/romea-baseline.XXXXXX)
trap 'rm -rf "$D"' EXIT
cmake -S "$REPO" -B "$D" -G Ninja -DCMAKE_BUILD_TYPE=RelWithDebInfo -DCMAKE_CXX_FLAGS=-Wno-error >"$D/configure.log" 2>&1 || { cat "$D/configure.log"; exit 2; }
cmake --build "$D" -j16 >"$D/build.log" 2>&1 || { tail -50 "$D/build.log"; exit 2; }
ctest --test-dir "$D" -j8 --timeout 900 --output-junit "${1:-$D/junit.xml}"
