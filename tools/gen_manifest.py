#!/usr/bin/env python3
"""Writes /verif/MANIFEST.json. Edit BUILT / the texts here, never the JSON by hand."""
import json, os

BUILT = [l.strip() for l in open('/verif/tools/built.txt') if l.strip() and not l.startswith('#')]

NA = {
 "C01": "pure function of (ellipsoid, coordinates): no schedule, clock, fault or call history for a simulator to own (DESIGN.md section 7)",
 "C03": "pure function of (projection parameters, point): nothing to schedule, time or fault",
 "C04": "pure function of the two point sets and correspondences; the estimator keeps no state between calls that the property quantifies over",
 "C05": "pure function of points, normals and correspondences; its only stateful ingredient, the solver object, is C07's subject",
 "C06": "stated for a freshly constructed estimator with a default-seeded sampler, hence a pure function of the input scan; exploring other sampler seeds would test more than the statement",
 "C08": "index built once and queried read-only: each query is a pure function of (point set, query, k)",
 "C09": "pure function of (cloud, k); no state survives between compute calls",
 "C10": "pure functions of their arguments; no history, clock or schedule in the statement",
 "C11": "pure functions of their arguments",
 "C12": "pure functions; deciding them is input sampling of finite differences, not simulation",
 "C13": "immutable mapping after construction; every query is a pure function of (extent, resolution, point)",
 "C20": "pure functions of their arguments (the preconditioner re-initialises all of its state on every call)",
}
CLAIMED = ["C02", "C07", "C14", "C15", "C16", "C17", "C18", "C19"]

ENGINE = {"C02": "E1 seqsim", "C07": "E1 seqsim", "C14": "E1 seqsim", "C15": "E1 seqsim", "C16": "E1 seqsim",
          "C17": "E2 timesim", "C18": "E2 timesim", "C19": "E3 schedsim"}

TEXT = {
 "C15": ("Seeded simulation of translate/write histories on the real WrappableGrid against a dense sliding-window reference model with a full read-back after every operation. The bounded space the property names is decoded bijectively from the run index and covered completely for 2D depth<=3 and 3D depth<=2 in the quick tier (3D depth 3 sampled there; swept in index order as far as the budget allows in the thorough tier); beyond that, seeded random histories. A clean batch is evidence, not proof, outside the completely swept sub-spaces.",
         "Trusted: the 30-line reference model (new[i]=old[i+d] or empty; offset accumulated modulo n), the orientation convention taken from the repository's own tests, g++ -O3 build of the headers with asserts on. The scheduler/clock/fault dimensions of the simulator are empty for this property (single owner, no failure modes).",
         "deterministic simulation: seeded op-history runner + reference model + bijective bounded sweep, ddmin-minimised replay",
         "DESIGN.md sections 6 and 7 (C15)"),
 "C16": ("Seeded simulation of update/append histories with the restart-like events reset()/clear() injected at arbitrary points (mid-window, right after a wrap, twice in a row, before data), on the real OnlineAverage, OnlineVariance and RingOfEigenVector, compared after every single operation with a deque model of the last W items since the last restart; exact integer comparison for power-of-two precisions, sound truncation bounds for decimal ones; long runs of 10^4 windows for drift.",
         "Trusted: the deque model and the tolerance derivations in props/C16.cpp; 'truncated' read as truncation toward zero; sampling of (W, precision, value regime, restart placement) is seeded, not exhaustive.",
         "deterministic simulation: seeded op-history runner with restart injection + reference model, ddmin-minimised replay",
         "DESIGN.md sections 6 and 7 (C16)"),
 "C17": ("Discrete-event simulation of a sensor, a watchdog and a monitor on a simulated nanosecond clock: stamped data events (steady, jittered, bursty, silences, drops, stalls) interleaved with heartbeats (stalled, skewed, jumping clock, exactly on the 0.5 s boundary) drive the real RateMonitoring and CheckupRate<EqualTo|GreaterThan>; after every event rate, timeout flag and the three report fields are compared with a model written from the statement.",
         "Trusted: the reference model in models/rate.hpp, the stream-print of the rate reproduced by the harness, data stamps strictly increasing by construction (the property's precondition). Every library call is one atomic event here; intra-call interleavings are C19's subject.",
         "deterministic simulation: discrete-event clock with injected time faults + reference model, event-list ddmin, replay",
         "DESIGN.md sections 5 and 7 (C17)"),
 "C18": ("Discrete-event simulation in which value check-ups receive evaluate(v) events and watchdog timeout() events in seeded interleavings, with values placed on each threshold, one ulp either side, far away, +-0, denormal and huge; returned status, stored status, message and info entry are compared after every event with a model that compares in extended precision on exactly representable thresholds; the status algebra is enumerated exhaustively (all 4^3 triples) and report aggregation is checked on lists of up to 20 reports.",
         "Trusted: the model in models/checkup.hpp; thresholds are generated so that target +- epsilon is exactly representable, removing rounding ambiguity instead of loosening the oracle.",
         "deterministic simulation: seeded event histories (evaluate/timeout) + reference model; exhaustive status-triple enumeration",
         "DESIGN.md sections 5 and 7 (C18)"),
 "C19": ("The library's threads are simulated: caller threads are fibers under a seeded scheduler (random walk, PCT priorities, time slices) that decides every interleaving at every lock, atomic, call boundary and sampled plain access; the unmodified sources are compiled with -fsanitize=thread instrumentation but linked against the simulator's own runtime, which runs a vector-clock happens-before race detector, detects torn values, and checks every recorded history for sequential explainability against the C16/C17/C18 models (linearizability counted, not required).",
         "Trusted: the simulator's mutex model (pthread_mutex_* wrapped), the happens-before detector (exact vector clocks, byte masks), SC exploration justified by data-race freedom; libstdc++ internals are uninstrumented.",
         "deterministic simulation: seeded fiber scheduler over instrumented code + happens-before race detection + sequential-consistency history check, schedule minimisation and replay",
         "DESIGN.md sections 4 and 7 (C19)"),
 "C02": ("Seeded simulation of construct/setAnchor/reset/convert histories on one ENUConverter; after every op the anchored flag and every conversion are compared with a freshly constructed twin on the model's anchor (decides the reset / re-anchor clause); the isometry, orientation and 1 mm round-trip clauses are evaluated as per-step invariants on the sampled anchors and points.",
         "Trusted: the fresh-twin oracle is the library's own code; input clauses are sampled through op arguments only (the technique decides the history clause).",
         "deterministic simulation: seeded op-history runner + fresh-twin oracle + per-step invariants",
         "DESIGN.md sections 6 and 7 (C02)"),
 "C07": ("Seeded simulation of sequences of problems of varying size solved with one LeastSquares object (grow, shrink with poisoned stale rows, same size; SVD, Cholesky, weighted paths; preconditioner), each solution compared with a fresh solver given only the current problem, plus normal-equation residual bounds as per-step invariants.",
         "Trusted: fresh twin = library code; residual tolerance 100*eps*cond^2 derived in DESIGN.md; input clause sampled only.",
         "deterministic simulation: seeded problem-history runner + fresh-twin oracle + per-step invariants",
         "DESIGN.md sections 6 and 7 (C07)"),
 "C14": ("Seeded simulation of cast/next histories on one RayCasting object (traversal state consumed or over-run before the next cast), every cast with an explicit end point compared exactly with a fresh caster, plus structural invariants (first cell, count, face adjacency, bounds, segment coverage) per cast.",
         "Trusted: fresh twin = library code; coverage tolerance derived from per-step rounding; input clause sampled only.",
         "deterministic simulation: seeded op-history runner + fresh-twin oracle + per-step invariants",
         "DESIGN.md sections 6 and 7 (C14)"),
}

checks = []
for pid in CLAIMED:
    if pid not in BUILT:
        continue
    text, note, tech, ref = TEXT[pid]
    checks.append({
        "property_id": pid,
        "quick_cmd": f"./check {pid} quick",
        "thorough_cmd": f"./check {pid} thorough",
        "evidence_file": f"/verif/evidence/{pid}.json",
        "replay_cmd_template": f"./check {pid} --replay {{path}}",
        "engine": ENGINE[pid],
        "level_claimed": {"category": "exploration", "text": text, "design_ref": ref},
        "level_note": note,
        "technique": tech,
    })

na = [{"property_id": k, "reason": v} for k, v in sorted(NA.items())]
for pid in CLAIMED:
    if pid not in BUILT:
        na.append({"property_id": pid, "reason": "claimed in DESIGN.md but its check is not built yet at this commit; never registered half-working"})
na.sort(key=lambda e: e["property_id"])

engines = [
 {"name": "E1 seqsim", "path": "sim/core/ props/C15.cpp props/C16.cpp props/C02.cpp props/C07.cpp props/C14.cpp",
  "serves_properties": [p for p in ["C02", "C07", "C14", "C15", "C16"] if p in BUILT],
  "kind_free_text": "seeded single-owner operation histories with restart-like events, checked op by op against reference models / fresh twins; worker processes, crash/hang capture, ddmin shrinking, replay files"},
 {"name": "E2 timesim", "path": "sim/core/ props/C17.cpp props/C18.cpp models/",
  "serves_properties": [p for p in ["C17", "C18"] if p in BUILT],
  "kind_free_text": "discrete-event simulation on a simulated nanosecond clock with sensor / watchdog / monitor / aggregator parties and injected time faults"},
 {"name": "E3 schedsim", "path": "sim/sched/ props/C19.cpp",
  "serves_properties": [p for p in ["C19"] if p in BUILT],
  "kind_free_text": "fibers + seeded scheduler; repository sources compiled with TSan instrumentation and linked against the simulator's own __tsan_* runtime and pthread wrappers; vector-clock race detector and sequential-consistency checker"},
]

m = {
 "version": 1,
 "setup_cmd": "make -s -j16 all",
 "hooks": {
  "guard": "ROMEA_CORE_COMMON_VERIF",
  "enable": "no hook exists: every seam is the public API, a link-time --wrap or compile-time instrumentation of unmodified sources, so checks compile /repo's sources exactly as they are",
  "baseline_off_cmd": "/verif/tools/baseline.sh",
  "source_commits": [],
  "add_only": True},
 "engines": engines,
 "checks": checks,
 "notes": "Technique family: deterministic simulation with fault injection. DESIGN.md section 2 gives the applicability triage: 12 of the 20 properties are pure functions of their inputs and are listed under not_applicable. Exit codes of every check: 0 held / only known findings, 1 VIOLATION, 2 harness error (never a statement about the library). VERIF_SEED selects the batch; VERIF_REPO points the build at another tree (mutant self-test).",
 "not_applicable": na,
}
json.dump(m, open('/verif/MANIFEST.json', 'w'), indent=1)
print("MANIFEST.json:", [c["property_id"] for c in checks], "not applicable:", len(na))
