#!/usr/bin/env python3
"""Regenerates /verif/mutants/*.patch from (file, old, new) triples against /repo's current tree.
Each mutant is a realistic change that still compiles; `expect` is the verdict the quick check of
`prop` must give: 1 = VIOLATION, 0 = silent (harmless change). Run after /repo changes."""
import difflib, json, os, sys

REPO = os.environ.get('VERIF_REPO', '/repo')
OUT = '/verif/mutants'
M = []
def mut(name, prop, expect, file, old, new, why=""):
    M.append(dict(name=name, prop=prop, expect=expect, file=file, old=old, new=new, why=why))

ENU = 'src/geodesy/ENUConverter.cpp'
ECEF = 'src/geodesy/ECEFConverter.cpp'
mut('c02_east_north_swapped', 'C02', 1, ENU, "enu2ecef_.linear().col(0) << -std::sin(longitude), std::cos(longitude), 0.0;",
    "enu2ecef_.linear().col(1) << -std::sin(longitude), std::cos(longitude), 0.0;", "first axis no longer east")
mut('c02_reset_keeps_flag', 'C02', 1, ENU, "  enu2ecef_ = Eigen::Affine3d::Identity();\n  isAnchored_ = false;", "  enu2ecef_ = Eigen::Affine3d::Identity();")
mut('c02_toenu_drops_translation', 'C02', 1, ENU, "return enu2ecef_.inverse() * ecefCoordinates;", "return enu2ecef_.linear().transpose() * ecefCoordinates;")
mut('c02_reset_keeps_anchor_altitude', 'C02', 1, ENU, "  wgs84Anchor_ = GeodeticCoordinates();\n", "", "reverts fix")
mut('c02_longitude_half_angle_formula', 'C02', 1, ECEF, "double longitude = atan2(Y, X);", "double longitude = 2.0 * atan(Y / (X + norm));", "reverts fix")
mut('c02_always_reanchor', 'C02', 1, ENU, "  if (!isAnchored()) {\n    setAnchor(geodeticCoordinates);\n  }", "  setAnchor(geodeticCoordinates);")
mut('c02_north_sign', 'C02', 1, ENU, "-std::sin(latitude) * std::cos(longitude), -std::sin(latitude) * sin(\n    longitude), cos(latitude);",
    "-std::sin(latitude) * std::cos(longitude), -std::sin(latitude) * sin(\n    longitude), -cos(latitude);")

LS = 'src/regression/leastsquares/LeastSquares.cpp'
mut('c07_jtj_whole_column', 'C07', 1, LS, "JtJ_(i, j) = JtJ_(j, i) = J_.col(i).head(dataSize_).\n        dot(J_.col(j).head(dataSize_));",
    "JtJ_(i, j) = JtJ_(j, i) = J_.col(i).dot(J_.col(j));")
mut('c07_jty_whole_column', 'C07', 1, LS, "JtY_(i) = J_.col(i).head(dataSize_).dot(Y_.head(dataSize_));", "JtY_(i) = J_.col(i).dot(Y_);")
mut('c07_datasize_never_shrinks', 'C07', 1, LS, "  dataSize_ = static_cast<int>(dataSize);\n", "  dataSize_ = dataSize_ > static_cast<int>(dataSize) ? dataSize_ : static_cast<int>(dataSize);\n")
mut('c07_offset_dropped_cholesky', 'C07', 1, LS, "inverseJtJ_ = JtJ_.ldlt().solve(Matrix::Identity(estimateSize_, estimateSize_));\n  return Ac_ * inverseJtJ_ * JtY_ + Bc_;",
    "inverseJtJ_ = JtJ_.ldlt().solve(Matrix::Identity(estimateSize_, estimateSize_));\n  return Ac_ * inverseJtJ_ * JtY_;")
mut('c07_svd_absolute_epsilon', 'C07', 1, LS, "if (inverseJtJ_(n, n) > threshold) {", "if (inverseJtJ_(n, n) > std::numeric_limits<RealType>::epsilon()) {", "reverts fix")
mut('c07_weights_not_squared_consistently', 'C07', 1, LS, "  Y_.head(dataSize_).array() *= W_.head(dataSize_).array();\n", "", "weights applied to J only")
mut('c07_weight_whole_columns_harmless', 'C07', 0, LS, "J_.col(i).head(dataSize_).array() *= W_.head(dataSize_).array();", "J_.col(i).array() *= W_.array();", "touches stale rows only")

RT = 'src/containers/grid/RayTracing.cpp'
mut('c14_count_without_plus_one', 'C14', 1, RT, "rayOriginIndexes_.template cast<int>()).array().abs().sum() + 1;", "rayOriginIndexes_.template cast<int>()).array().abs().sum();")
mut('c14_zero_step_axis_keeps_old_crossing_harmless', 'C14', 0, RT, "    } else {\n      rayTMax_[i] = std::numeric_limits<Scalar>::max();\n      rayTDelta_[i] = std::numeric_limits<Scalar>::max();\n    }", "    }",
    "stale crossing parameters of a zero-step axis; equivalent since next() never steps along an axis that is at its end index (a zero-step axis always is)")
mut('c14_origin_set_after_end', 'C14', 1, RT, "  setOriginPoint(originPoint);\n  return cast(endPointValue);", "  setEndPoint(endPointValue);\n  setOriginPoint(originPoint);\n  return cast();",
    "crossing parameters computed from the previous origin")
mut('c14_cast_reads_end_after_origin_update', 'C14', 1, RT, "  const PointType endPointValue = endPoint;\n  setOriginPoint(originPoint);\n  return cast(endPointValue);", "  setOriginPoint(originPoint);\n  return cast(endPoint);", "reverts fix: end argument aliasing the stored origin")
mut('c14_step_ignores_end_index', 'C14', 1, RT, "  const double tMax0 = cellIndexes[0] == rayEndIndexes_[0] ?\n    std::numeric_limits<double>::max() : rayTMax_[0];\n  const double tMax1 = cellIndexes[1] == rayEndIndexes_[1] ?\n    std::numeric_limits<double>::max() : rayTMax_[1];\n  // find minimum rayTMax_",
    "  const double tMax0 = rayTMax_[0];\n  const double tMax1 = rayTMax_[1];\n  // find minimum rayTMax_", "reverts fix for double 2D")
mut('c14_tdelta_uses_direction_sign', 'C14', 1, RT, "rayTDelta_[i] = gridIndexMapping_->getCellResolution() / std::abs(rayDirection_[i]);", "rayTDelta_[i] = gridIndexMapping_->getCellResolution() / rayDirection_[i];")

WG = 'include/romea_core_common/containers/grid/WrappableGrid.hpp'
mut('c15_x_offset_not_accumulated', 'C15', 1, WG, "      indexOffsetsAlongAxes_[0] = (indexOffsetsAlongAxes_[0] + numberOfCellsAlongXAxis +\n        indexOffsetAlongXAxis % static_cast<int>(numberOfCellsAlongXAxis)) %\n        numberOfCellsAlongXAxis;\n    }\n\n    // translation along Y\n    if (indexOffsetAlongYAxis) {\n      yIndex = 0;",
    "      indexOffsetsAlongAxes_[0] = (numberOfCellsAlongXAxis +\n        indexOffsetAlongXAxis % static_cast<int>(numberOfCellsAlongXAxis)) %\n        numberOfCellsAlongXAxis;\n    }\n\n    // translation along Y\n    if (indexOffsetAlongYAxis) {\n      yIndex = 0;", "2D only")
mut('c15_blank_starts_at_offset', 'C15', 1, WG, "    // translation along Y\n    if (indexOffsetAlongYAxis) {\n      yIndex = 0;\n      for (int yOffset = 0; yOffset < indexOffsetAlongYAxis; yOffset++) {\n        for (xIndex = 0;",
    "    // translation along Y\n    if (indexOffsetAlongYAxis) {\n      yIndex = indexOffsetsAlongAxes_[1];\n      for (int yOffset = 0; yOffset < indexOffsetAlongYAxis; yOffset++) {\n        for (xIndex = 0;")
mut('c15_negative_z_never_blanked', 'C15', 1, WG, "for (int zOffset = 0; zOffset > indexOffsetAlongZAxis; zOffset--) {", "for (int zOffset = 0; zOffset < indexOffsetAlongZAxis; zOffset++) {\n        if (zOffset >= 0) {break;}")
mut('c15_offset_unsigned_remainder', 'C15', 1, WG, "      indexOffsetsAlongAxes_[2] = (indexOffsetsAlongAxes_[2] + numberOfCellsAlongZAxis +\n        indexOffsetAlongZAxis % static_cast<int>(numberOfCellsAlongZAxis)) %",
    "      indexOffsetsAlongAxes_[2] = (indexOffsetsAlongAxes_[2] + numberOfCellsAlongZAxis +\n        indexOffsetAlongZAxis) %", "wrong below -n along z")
mut('c15_default_value_instead_of_empty', 'C15', 1, WG, "      for (int yOffset = 0; yOffset > indexOffsetAlongYAxis; yOffset--) {\n        yIndex = (yIndex + numberOfCellsAlongYAxisMinusOne) % numberOfCellsAlongYAxis;\n        for (xIndex = 0; xIndex < numberOfCellsAlongXAxis; xIndex++) {\n          this->buffer_[computeCellLinearIndex_(cellIndexes)] = emptyValue;",
    "      for (int yOffset = 0; yOffset > indexOffsetAlongYAxis; yOffset--) {\n        yIndex = (yIndex + numberOfCellsAlongYAxisMinusOne) % numberOfCellsAlongYAxis;\n        for (xIndex = 0; xIndex < numberOfCellsAlongXAxis; xIndex++) {\n          this->buffer_[computeCellLinearIndex_(cellIndexes)] = T();", "2D, negative y only")

OA = 'src/monitoring/OnlineAverage.cpp'; OV = 'src/monitoring/OnlineVariance.cpp'
RING = 'include/romea_core_common/containers/Eigen/RingOfEigenVector.hpp'
mut('c16_reset_keeps_index', 'C16', 1, OA, "  data_.clear();\n  index_ = 0;", "  data_.clear();", "reverts fix")
mut('c16_squared_multiplier_int', 'C16', 1, OV, "squaredMultiplier_(static_cast<long long int>(multiplier_) * multiplier_),", "squaredMultiplier_(static_cast<int>(multiplier_ * multiplier_)),", "reverts fix")
mut('c16_ring_unsigned_modulo', 'C16', 1, RING, "return ring_[(ringIndex_ + ring_.size() - n) % ring_.size()];", "return ring_[(ringIndex_ - n) % ring_.size()];", "reverts fix")
mut('c16_ring_clear_keeps_index', 'C16', 1, RING, "  ring_.clear();\n  ringIndex_ = -1;", "  ring_.clear();", "reverts fix")
mut('c16_sum_not_decremented', 'C16', 1, OA, "    sumOfData_ -= data_[index_];\n", "")
mut('c16_available_one_early', 'C16', 1, OA, "  return data_.size() == windowSize_;", "  return data_.size() + 1 >= windowSize_;")
mut('c16_variance_biased', 'C16', 1, OV, "(squaredAverage - data_.size() * average * average) / (windowSizeMinusOne_);", "(squaredAverage - data_.size() * average * average) / (windowSizeMinusOne_ + 1);")
mut('c16_variance_index_not_reset', 'C16', 1, OV, "  index_ = 0;\n  sumOfData_ = 0;\n  sumOfSquaredData_ = 0;", "  sumOfData_ = 0;\n  sumOfSquaredData_ = 0;", "reverts fix in OnlineVariance")

RM = 'src/monitoring/RateMonitoring.cpp'; CR = 'src/diagnostics/CheckupRate.cpp'
mut('c17_timeout_at_exactly_half_second', 'C17', 1, RM, "durationToSecond(duration - lastDuration_.load()) > 0.5)", "durationToSecond(duration - lastDuration_.load()) >= 0.5)")
mut('c17_window_one_period_short', 'C17', 1, RM, "if (periods_.size() == windowSize_ + 1) {", "if (periods_.size() == windowSize_) {")
mut('c17_timeout_keeps_rate', 'C17', 1, RM, "    rate_.store(0.);\n    return true;", "    return true;")
mut('c17_timeout_before_any_data', 'C17', 1, RM, "  if (!periods_.empty() &&\n    durationToSecond", "  if (durationToSecond")
mut('c17_window_rounded', 'C17', 1, RM, "windowSize_ = static_cast<size_t>(2 * expectedRate);", "windowSize_ = static_cast<size_t>(2 * expectedRate + 0.5);")
mut('c17_timeout_clears_window', 'C17', 1, RM, "    rate_.store(0.);\n    return true;", "    rate_.store(0.);\n    periods_ = std::queue<long long int>();\n    periods_.push(0);\n    periodsSum_ = 0;\n    return true;", "recovery after a timeout needs a whole new window")
mut('c17_stale_report_keeps_value', 'C17', 1, 'include/romea_core_common/diagnostic/Checkup.hpp', "  setDiagnostic_(DiagnosticStatus::STALE, \" timeout.\");\n  report_.info.begin()->second = \"\";", "  setDiagnostic_(DiagnosticStatus::STALE, \" timeout.\");")
mut('c17_max_window_32', 'C17', 1, RM, "const size_t MAXIMAL_WINDOW_SIZE = 64;", "const size_t MAXIMAL_WINDOW_SIZE = 32;")

LT = 'include/romea_core_common/diagnostic/CheckupLowerThan.hpp'; GT = 'include/romea_core_common/diagnostic/CheckupGreaterThan.hpp'
EQ = 'include/romea_core_common/diagnostic/CheckupEqualTo.hpp'; REL = 'src/diagnostics/CheckupReliability.cpp'
DS = 'src/diagnostics/DiagnosticStatus.cpp'; DG = 'src/diagnostics/Diagnostic.cpp'; DR = 'src/diagnostics/DiagnosticReport.cpp'
mut('c18_lower_than_inclusive', 'C18', 1, LT, "if (value < this->value_to_compare_with_ + this->epsilon_) {", "if (value <= this->value_to_compare_with_ + this->epsilon_) {")
mut('c18_greater_than_inclusive', 'C18', 1, GT, "if (value > this->value_to_compare_with_ - this->epsilon_) {", "if (value >= this->value_to_compare_with_ - this->epsilon_) {")
mut('c18_equal_to_exclusive_low', 'C18', 1, EQ, "if (value < this->value_to_compare_with_ - this->epsilon_) {", "if (value <= this->value_to_compare_with_ - this->epsilon_) {")
mut('c18_worse_strict_harmless', 'C18', 0, DS, "return status1 >= status2 ? status1 : status2;", "return status1 > status2 ? status1 : status2;", "same function")
mut('c18_info_not_updated', 'C18', 1, GT, "  this->setValue_(value);\n", "")
mut('c18_reliability_low_inclusive', 'C18', 1, REL, "if (reliability < low_reliability_theshold_) {", "if (reliability <= low_reliability_theshold_) {")
mut('c18_timeout_keeps_value', 'C18', 1, 'include/romea_core_common/diagnostic/Checkup.hpp', "  setDiagnostic_(DiagnosticStatus::STALE, \" timeout.\");\n  report_.info.begin()->second = \"\";", "  setDiagnostic_(DiagnosticStatus::STALE, \" timeout.\");")
mut('c18_append_info_last_wins', 'C18', 1, DR, "  report1.info.insert(\n    std::cbegin(report2.info),\n    std::cend(report2.info));", "  for (const auto & kv : report2.info) {\n    report1.info[kv.first] = kv.second;\n  }")
mut('c18_all_ok_tolerates_warn', 'C18', 1, DG, "return worseStatus(diagnostics) == DiagnosticStatus::OK;", "return worseStatus(diagnostics) <= DiagnosticStatus::WARN;")
mut('c18_worse_status_skips_last', 'C18', 1, DG, "  while (++it != std::cend(diagnostics)) {\n    status = worse(status, it->status);\n  }", "  while (++it != std::cend(diagnostics) && std::next(it) != std::cend(diagnostics)) {\n    status = worse(status, it->status);\n  }")
mut('c18_worse_stale_below_error', 'C18', 1, DS, "return status1 >= status2 ? status1 : status2;", "if (status1 == DiagnosticStatus::STALE && status2 == DiagnosticStatus::ERROR) {return status2;}\n  return status1 >= status2 ? status1 : status2;", "not commutative for one pair")

SV = 'include/romea_core_common/concurrency/SharedVariable.hpp'; SO = 'include/romea_core_common/concurrency/SharedOptionalVariable.hpp'
CK = 'include/romea_core_common/diagnostic/Checkup.hpp'
mut('c19_equal_to_without_lock', 'C19', 1, EQ, "  std::lock_guard<std::mutex> lock(this->mutex_);\n", "", "reverts fix")
mut('c19_get_report_returns_reference', 'C19', 1, CK, "  DiagnosticReport getReport() const;", "  const DiagnosticReport & getReport() const;", "reverts fix (declaration)")
mut('c19_is_available_without_lock', 'C19', 1, OA, "bool OnlineAverage::isAvailable()const\n{\n  std::lock_guard<std::mutex> lock(mutex_);", "bool OnlineAverage::isAvailable()const\n{", "reverts fix")
mut('c19_rate_timeout_without_lock', 'C19', 1, RM, "bool RateMonitoring::timeout(const Duration & duration)\n{\n  std::lock_guard<std::mutex> lock(mutex_);", "bool RateMonitoring::timeout(const Duration & duration)\n{", "half of the fix reverted")
mut('c19_checkup_rate_heartbeat_without_lock', 'C19', 1, CR, "  std::lock_guard<std::mutex> lock(mutex_);\n  if (rateMonitoring_.timeout(stamp)) {", "  if (rateMonitoring_.timeout(stamp)) {", "STALE may overwrite a later verdict")
mut('c19_store_before_lock', 'C19', 1, SV, "  std::lock_guard<std::mutex> lock(mutex_);\n  value_ = value;", "  value_ = value;\n  std::lock_guard<std::mutex> lock(mutex_);")
mut('c19_consume_without_reset', 'C19', 1, SO, "  auto value = value_;\n  value_.reset();", "  auto value = value_;")
mut('c19_consume_copy_before_lock', 'C19', 1, SO, "  std::lock_guard<std::mutex> lock(mutex_);\n  auto value = value_;\n  value_.reset();", "  auto value = value_;\n  std::lock_guard<std::mutex> lock(mutex_);\n  value_.reset();")
mut('c19_get_average_without_lock', 'C19', 1, OA, "double OnlineAverage::getAverage()const\n{\n  std::lock_guard<std::mutex> lock(mutex_);", "double OnlineAverage::getAverage()const\n{")
mut('c19_reliability_get_report_without_lock', 'C19', 1, REL, "DiagnosticReport CheckupReliability::getReport()const\n{\n  std::lock_guard<std::mutex> lock(mutex_);", "DiagnosticReport CheckupReliability::getReport()const\n{")
mut('c19_timeout_without_lock', 'C19', 1, CK, "void Checkup<T>::timeout()\n{\n  std::lock_guard<std::mutex> lock(mutex_);", "void Checkup<T>::timeout()\n{")
mut('c19_reset_relocks_held_mutex', 'C19', 1, OV, "void OnlineVariance::reset()\n{\n  std::lock_guard<std::mutex> lock(mutex_);\n\n  data_.clear();", "void OnlineVariance::reset()\n{\n  std::lock_guard<std::mutex> lock(mutex_);\n  OnlineAverage::reset();\n\n  data_.clear();", "self-deadlock: the base-class reset locks the mutex that is already held")
mut('c19_function_local_static_harmless', 'C19', 0, CK, "  setDiagnostic_(DiagnosticStatus::STALE, \" timeout.\");", "  static const std::string suffix = \" timeout.\";\n  setDiagnostic_(DiagnosticStatus::STALE, suffix);", "one-time initialisation (__cxa_guard) is synchronisation, not a race")
mut('c19_shared_mutex_harmless', 'C19', 0, SV, "  std::lock_guard<std::mutex> lock(mutex_);\n  return value_;", "  std::unique_lock<std::mutex> lock(mutex_, std::defer_lock);\n  lock.lock();\n  return value_;", "equivalent locking through unique_lock")
mut('c19_atomic_flag_extra_harmless', 'C19', 0, OA, "bool OnlineAverage::isAvailable()const\n{\n  std::lock_guard<std::mutex> lock(mutex_);", "bool OnlineAverage::isAvailable()const\n{\n  static std::atomic<unsigned long> calls{0};\n  calls.fetch_add(1, std::memory_order_relaxed);\n  std::lock_guard<std::mutex> lock(mutex_);", "an extra relaxed atomic counter: atomics do not race")
mut('c19_scoped_lock_harmless', 'C19', 0, SV, "  std::lock_guard<std::mutex> lock(mutex_);\n  return value_;", "  std::scoped_lock lock(mutex_);\n  return value_;", "equivalent locking")
mut('c19_unique_lock_harmless', 'C19', 0, OA, "void OnlineAverage::reset()\n{\n  std::lock_guard<std::mutex> lock(mutex_);", "void OnlineAverage::reset()\n{\n  std::unique_lock<std::mutex> lock(mutex_);", "equivalent locking")

os.makedirs(OUT, exist_ok=True)
for f in os.listdir(OUT):
    if f.endswith('.patch'): os.remove(os.path.join(OUT, f))
index = []
bad = 0
for m in M:
    path = os.path.join(REPO, m['file'])
    src = open(path).read()
    if src.count(m['old']) != 1:
        print(f"!! {m['name']}: pattern occurs {src.count(m['old'])} times in {m['file']}"); bad += 1; continue
    new = src.replace(m['old'], m['new'])
    if m['name'] == 'c19_get_report_returns_reference':
        new = new.replace("template<typename T>\nDiagnosticReport Checkup<T>::getReport() const", "template<typename T>\nconst DiagnosticReport & Checkup<T>::getReport() const")
    diff = ''.join(difflib.unified_diff(src.splitlines(True), new.splitlines(True), 'a/' + m['file'], 'b/' + m['file']))
    open(os.path.join(OUT, m['name'] + '.patch'), 'w').write(diff)
    index.append(dict(name=m['name'], property=m['prop'], expect_exit=m['expect'], file=m['file'], why=m['why']))
json.dump(index, open(os.path.join(OUT, 'index.json'), 'w'), indent=1)
print(f"{len(index)} mutants written, {bad} patterns not found")
sys.exit(1 if bad else 0)
