#!/opt/veriftools/pyvenv/bin/python
"""Validate MANIFEST.json and evidence files against the harness schemas."""
import json, sys, glob, jsonschema
ok = True
def check(path, schema):
    global ok
    try:
        jsonschema.validate(json.load(open(path)), json.load(open(schema)))
        print("valid  ", path)
    except Exception as e:
        ok = False
        print("INVALID", path, str(e).splitlines()[0])
check('/verif/MANIFEST.json', '/root/.vp/MANIFEST.schema.json')
for f in sorted(glob.glob('/verif/evidence/*.json')):
    check(f, '/root/.vp/EVIDENCE.schema.json')
sys.exit(0 if ok else 1)
