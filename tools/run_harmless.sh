#!/bin/bash
# Runs the quick checks of every claimed property whose anchored files a behaviour-preserving change touches,
# with the change applied to /repo, and undoes it. Any exit != 0 is a false alarm of a check (to be analysed).
# usage: tools/run_harmless.sh <dir containing */patch.diff> ...   -> appends to selftest/harmless.txt
# HARMLESS_TREE=<scratch worktree of /repo>: patch that tree and check it through VERIF_REPO instead of /repo itself
cd /verif
TREE=${HARMLESS_TREE:-/repo}
[ -z "$(git -C $TREE status --porcelain --untracked-files=no)" ] || { echo "/repo has uncommitted changes"; exit 2; }
mkdir -p selftest
bad=0
for d in "$@"; do
  for pd in "$d"/*/patch.diff; do
    [ -f "$pd" ] || continue
    name=$(echo "$pd" | sed 's|/patch.diff||; s|.*/w[0-9]*-||; s|/_harmless/|-|; s|.*/harmless/||')
    props=$(python3 - "$pd" <<'PY'
import json,re,sys
files=set(re.findall(r'^\+\+\+ b/(\S+)', open(sys.argv[1]).read(), re.M))
claimed=[l.strip() for l in open('/verif/tools/built.txt') if l.strip()]
out=[]
for l in open('/verif/properties.jsonl'):
    p=json.loads(l)
    if p['id'] in claimed and files & set(p['anchors']['files']): out.append(p['id'])
# headers included by anchored code without being listed
extra={'include/romea_core_common/diagnostic/Checkup.hpp':['C17','C18','C19'],'include/romea_core_common/diagnostic/DiagnosticReport.hpp':['C17','C18','C19'],
       'include/romea_core_common/containers/grid/GridIndexMapping.hpp':['C14'],'include/romea_core_common/time/Time.hpp':['C17','C19'],
       'include/romea_core_common/diagnostic/CheckupRate.hpp':['C17','C19'],'include/romea_core_common/diagnostic/CheckupReliability.hpp':['C18','C19'],
       'include/romea_core_common/diagnostic/Diagnostic.hpp':['C17','C18','C19'],'include/romea_core_common/diagnostic/DiagnosticStatus.hpp':['C17','C18','C19'],
       'include/romea_core_common/geodesy/ECEFConverter.hpp':['C02'],'include/romea_core_common/geodesy/GeodeticCoordinates.hpp':['C02'],
       'src/geodesy/EarthEllipsoid.cpp':['C02'],'src/geodesy/GeodeticCoordinates.cpp':['C02'],'src/geodesy/WGS84Coordinates.cpp':['C02']}
for f in files:
    for q in extra.get(f,[]):
        if q in claimed and q not in out: out.append(q)
print(' '.join(sorted(out)))
PY
)
    if ! git -C $TREE apply "$pd" 2>/dev/null; then echo "$name: patch does not apply" | tee -a selftest/harmless.txt; continue; fi
    line="$name [$(grep -c '^+++ ' "$pd") file(s)]:"
    for id in $props; do
      VERIF_REPO=$TREE VERIF_OUT=/var/tmp/verif-harmless-out ./check "$id" quick > /var/tmp/verif-harmless.log 2>&1; rc=$?
      line="$line $id=$rc"
      if [ $rc -ne 0 ]; then bad=1; cp /var/tmp/verif-harmless.log "/var/tmp/verif-harmless-$name-$id.log"; grep -E "^VIOLATION|class=|detail|HARNESS|BUILD|error" /var/tmp/verif-harmless.log | head -6; fi
    done
    git -C $TREE checkout -- .
    echo "$line" | tee -a selftest/harmless.txt
  done
done
rm -rf /var/tmp/verif-harmless-out
exit $bad
