#!/usr/bin/env python3
"""Regenerates the table of DESIGN.md section 13 from seeded/C*/meta.json (in place) and prints the score line.
The rows between the table header '| id | what the change needs ...' and the next blank line are replaced."""
import glob, json, re, sys
rows = []; total = 0; stood = 0; now = 0; per_round = {}
for p in sorted(glob.glob('/verif/seeded/C*/meta.json')):
    m = json.load(open(p)); sid = p.split('/')[-2]
    total += 1
    det = bool(m.get('detected_by_quick_check')); after = bool(m.get('detected_after_strengthening'))
    exit2 = 'first confirmation run exited 2' in m.get('note', '')
    if m.get('detected_by_quick_check_as_it_stood_before') is False or exit2:
        det = False; after = True
        m.setdefault('violation_classes_after_strengthening', m.get('violation_classes', []))
    rnd = m.get('round', 1); r = per_round.setdefault(rnd, [0, 0]); r[1] += 1
    if det:
        stood += 1; now += 1; verdict = 'detected'; classes = m.get('violation_classes', [])
    else:
        r[0] += 1
        if after:
            now += 1; verdict = 'exit 2 at first (see below) -> detected' if exit2 else '**missed** as it stood -> detected after strengthening'
            classes = m.get('violation_classes_after_strengthening', [])
        else:
            verdict = '**missed**'; classes = []
    if m.get('detected_by_other_check'):
        verdict += ' (by %s)' % m['detected_by_other_check']
    seen = []
    for c in classes:
        c = c.split('|')[0] if not c.startswith('race') and not c.startswith('not-seq') else '|'.join(c.split('|')[:2])
        if c not in seen: seen.append(c)
    need = m.get('needs_to_manifest', '').replace('|', '\\|').replace('\n', ' ')
    if 'caught by C19' in need: verdict += ' (by C19; silent in its own property, which has no threads)'
    rows.append('| %s | %s | %s | `%s` |' % (sid, need, verdict, ', '.join(seen[:3]).replace('|', '/')))
d = open('/verif/DESIGN.md').read().split('\n')
i = next(k for k, l in enumerate(d) if l.startswith('| id | what the change needs'))
j = i + 2
while j < len(d) and d[j].startswith('| '): j += 1
d[i + 2:j] = rows
open('/verif/DESIGN.md', 'w').write('\n'.join(d))
print('kept in-statement: %d, detected as the checks stood: %d, detected now: %d' % (total, stood, now))
print('misses per round: ' + ', '.join('round %s: %d of %d' % (k, v[0], v[1]) for k, v in sorted(per_round.items())))
