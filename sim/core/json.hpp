// Minimal JSON value: plans, replay files, evidence and known findings are data.
// Doubles are written with 17 significant digits and therefore round-trip exactly.
#pragma once
#include <cstdint>
#include <cstdio>
#include <cstdlib>
#include <cmath>
#include <map>
#include <stdexcept>
#include <string>
#include <utility>
#include <vector>
#include <fstream>
#include <sstream>

namespace sim {

class Json
{
public:
  enum Type {Null, Bool, Int, Real, Str, Arr, Obj};
  using Array = std::vector<Json>;
  using Object = std::vector<std::pair<std::string, Json>>;

  Json() : t_(Null) {}
  Json(bool b) : t_(Bool), i_(b) {}
  Json(int v) : t_(Int), i_(v) {}
  Json(long v) : t_(Int), i_(v) {}
  Json(long long v) : t_(Int), i_(v) {}
  Json(unsigned v) : t_(Int), i_(v) {}
  Json(unsigned long v) : t_(Int), i_((int64_t)v) {}
  Json(unsigned long long v) : t_(Int), i_((int64_t)v) {}
  Json(double v) : t_(Real), d_(v) {}
  Json(float v) : t_(Real), d_(v) {}
  Json(const char * s) : t_(Str), s_(s) {}
  Json(const std::string & s) : t_(Str), s_(s) {}
  static Json array() {Json j; j.t_ = Arr; return j;}
  static Json object() {Json j; j.t_ = Obj; return j;}
  template<class T> static Json arrayOf(const std::vector<T> & v)
  {
    Json j = array(); for (const auto & x : v) {j.push(Json(x));} return j;
  }

  Type type() const {return t_;}
  bool isNull() const {return t_ == Null;}
  bool isObj() const {return t_ == Obj;}
  bool isArr() const {return t_ == Arr;}
  bool isStr() const {return t_ == Str;}
  bool isNum() const {return t_ == Int || t_ == Real;}

  bool b() const {return i_ != 0;}
  int64_t i() const {return t_ == Real ? (int64_t)d_ : i_;}
  uint64_t u() const {return (uint64_t)i();}
  double d() const
  {
    if (t_ == Str) {
      if (s_ == "nan") {return std::nan("");}
      if (s_ == "inf") {return INFINITY;}
      if (s_ == "-inf") {return -INFINITY;}
    }
    return t_ == Int ? (double)i_ : d_;
  }
  const std::string & s() const {return s_;}
  const Array & a() const {return a_;}
  Array & a() {return a_;}
  const Object & o() const {return o_;}
  size_t size() const {return t_ == Arr ? a_.size() : o_.size();}

  Json & push(Json v) {t_ = Arr; a_.push_back(std::move(v)); return *this;}
  Json & set(const std::string & k, Json v)
  {
    t_ = Obj;
    for (auto & kv : o_) {if (kv.first == k) {kv.second = std::move(v); return *this;}}
    o_.emplace_back(k, std::move(v));
    return *this;
  }
  bool has(const std::string & k) const
  {
    for (auto & kv : o_) {if (kv.first == k) {return true;}}
    return false;
  }
  const Json & operator[](const std::string & k) const
  {
    static const Json nul;
    for (auto & kv : o_) {if (kv.first == k) {return kv.second;}}
    return nul;
  }
  const Json & operator[](const char * k) const {return (*this)[std::string(k)];}
  const Json & operator[](size_t k) const {return a_[k];}
  const Json & operator[](int k) const {return a_[(size_t)k];}

  std::string dump(int indent = -1) const
  {
    std::string out; dumpTo(out, indent, 0); return out;
  }

  static Json parse(const std::string & text)
  {
    size_t p = 0; Json j = parseValue(text, p); skipWs(text, p);
    if (p != text.size()) {throw std::runtime_error("json: trailing characters");}
    return j;
  }
  static Json parseFile(const std::string & path)
  {
    std::ifstream f(path);
    if (!f) {throw std::runtime_error("json: cannot open " + path);}
    std::stringstream ss; ss << f.rdbuf();
    return parse(ss.str());
  }
  bool writeFile(const std::string & path, int indent = 1) const
  {
    std::string tmp = path + ".tmp";
    {
      std::ofstream f(tmp);
      if (!f) {return false;}
      f << dump(indent) << "\n";
    }
    return std::rename(tmp.c_str(), path.c_str()) == 0;
  }

private:
  static void escape(const std::string & s, std::string & out)
  {
    out += '"';
    for (unsigned char c : s) {
      switch (c) {
        case '"': out += "\\\""; break;
        case '\\': out += "\\\\"; break;
        case '\n': out += "\\n"; break;
        case '\t': out += "\\t"; break;
        case '\r': out += "\\r"; break;
        default:
          if (c < 0x20) {char b[8]; std::snprintf(b, sizeof b, "\\u%04x", c); out += b;} else {
            out += (char)c;
          }
      }
    }
    out += '"';
  }
  void dumpTo(std::string & out, int indent, int depth) const
  {
    auto nl = [&](int d) {
        if (indent >= 0) {out += '\n'; out.append((size_t)(indent * d), ' ');}
      };
    switch (t_) {
      case Null: out += "null"; break;
      case Bool: out += i_ ? "true" : "false"; break;
      case Int: out += std::to_string(i_); break;
      case Real: {
          if (std::isnan(d_)) {out += "\"nan\"";} else if (std::isinf(d_)) {
            out += d_ > 0 ? "\"inf\"" : "\"-inf\"";
          } else {
            char b[40]; std::snprintf(b, sizeof b, "%.17g", d_);
            std::string s(b);
            if (s.find_first_of(".eEn") == std::string::npos) {s += ".0";}
            out += s;
          }
          break;
        }
      case Str: escape(s_, out); break;
      case Arr: {
          bool scalar = true;
          for (auto & e : a_) {if (e.t_ == Arr || e.t_ == Obj) {scalar = false;}}
          out += '[';
          for (size_t k = 0; k < a_.size(); ++k) {
            if (k) {out += ',';}
            if (!scalar) {nl(depth + 1);}
            a_[k].dumpTo(out, scalar ? -1 : indent, depth + 1);
          }
          if (!scalar && !a_.empty()) {nl(depth);}
          out += ']';
          break;
        }
      case Obj: {
          bool flat = true;
          for (auto & e : o_) {if (e.second.t_ == Arr || e.second.t_ == Obj) {flat = false;}}
          if (depth == 0) {flat = false;}
          out += '{';
          for (size_t k = 0; k < o_.size(); ++k) {
            if (k) {out += ',';}
            if (!flat) {nl(depth + 1);}
            escape(o_[k].first, out); out += ':';
            o_[k].second.dumpTo(out, flat ? -1 : indent, depth + 1);
          }
          if (!flat && !o_.empty()) {nl(depth);}
          out += '}';
          break;
        }
    }
  }
  static void skipWs(const std::string & t, size_t & p)
  {
    while (p < t.size() && (t[p] == ' ' || t[p] == '\n' || t[p] == '\t' || t[p] == '\r')) {++p;}
  }
  static Json parseValue(const std::string & t, size_t & p)
  {
    skipWs(t, p);
    if (p >= t.size()) {throw std::runtime_error("json: unexpected end");}
    char c = t[p];
    if (c == '{') {
      Json j = object(); ++p; skipWs(t, p);
      if (t[p] == '}') {++p; return j;}
      for (;; ) {
        skipWs(t, p);
        Json k = parseValue(t, p);
        if (!k.isStr()) {throw std::runtime_error("json: key");}
        skipWs(t, p);
        if (t[p] != ':') {throw std::runtime_error("json: colon");}
        ++p;
        Json v = parseValue(t, p);
        j.o_.emplace_back(k.s_, std::move(v));
        skipWs(t, p);
        if (t[p] == ',') {++p; continue;}
        if (t[p] == '}') {++p; return j;}
        throw std::runtime_error("json: object");
      }
    }
    if (c == '[') {
      Json j = array(); ++p; skipWs(t, p);
      if (t[p] == ']') {++p; return j;}
      for (;; ) {
        j.a_.push_back(parseValue(t, p));
        skipWs(t, p);
        if (t[p] == ',') {++p; continue;}
        if (t[p] == ']') {++p; return j;}
        throw std::runtime_error("json: array");
      }
    }
    if (c == '"') {
      ++p; std::string s;
      while (p < t.size() && t[p] != '"') {
        if (t[p] == '\\') {
          ++p;
          switch (t[p]) {
            case 'n': s += '\n'; break;
            case 't': s += '\t'; break;
            case 'r': s += '\r'; break;
            case 'b': s += '\b'; break;
            case 'f': s += '\f'; break;
            case 'u': {
                unsigned v = (unsigned)std::strtoul(t.substr(p + 1, 4).c_str(), nullptr, 16);
                p += 4;
                if (v < 0x80) {s += (char)v;} else if (v < 0x800) {
                  s += (char)(0xC0 | (v >> 6)); s += (char)(0x80 | (v & 0x3F));
                } else {
                  s += (char)(0xE0 | (v >> 12)); s += (char)(0x80 | ((v >> 6) & 0x3F));
                  s += (char)(0x80 | (v & 0x3F));
                }
                break;
              }
            default: s += t[p];
          }
          ++p;
        } else {s += t[p++];}
      }
      ++p;
      return Json(s);
    }
    if (t.compare(p, 4, "true") == 0) {p += 4; return Json(true);}
    if (t.compare(p, 5, "false") == 0) {p += 5; return Json(false);}
    if (t.compare(p, 4, "null") == 0) {p += 4; return Json();}
    size_t q = p; bool real = false;
    while (q < t.size() && (std::isdigit((unsigned char)t[q]) || t[q] == '-' || t[q] == '+' ||
      t[q] == '.' || t[q] == 'e' || t[q] == 'E'))
    {
      if (t[q] == '.' || t[q] == 'e' || t[q] == 'E') {real = true;}
      ++q;
    }
    if (q == p) {throw std::runtime_error("json: bad token at " + std::to_string(p));}
    std::string num = t.substr(p, q - p); p = q;
    if (real) {return Json(std::strtod(num.c_str(), nullptr));}
    return Json((long long)std::strtoll(num.c_str(), nullptr, 10));
  }

  Type t_;
  int64_t i_ = 0;
  double d_ = 0;
  std::string s_;
  Array a_;
  Object o_;
};

}  // namespace sim
