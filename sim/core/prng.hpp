// Seeded pseudo-random source of every simulated choice.
// One integer (VERIF_SEED) -> master -> per-run seed -> xoshiro256** stream.
#pragma once
#include <cstdint>
#include <cmath>
#include <cstring>
#include <string>
#include <vector>

namespace sim {

inline uint64_t splitmix64(uint64_t & x)
{
  uint64_t z = (x += 0x9e3779b97f4a7c15ULL);
  z = (z ^ (z >> 30)) * 0xbf58476d1ce4e5b9ULL;
  z = (z ^ (z >> 27)) * 0x94d049bb133111ebULL;
  return z ^ (z >> 31);
}

inline uint64_t mix64(uint64_t a, uint64_t b)
{
  uint64_t x = a ^ (b + 0x9e3779b97f4a7c15ULL + (a << 6) + (a >> 2));
  return splitmix64(x);
}

inline uint64_t hashStr(const char * s)
{
  uint64_t h = 1469598103934665603ULL;
  for (; *s; ++s) {h = (h ^ (unsigned char)*s) * 1099511628211ULL;}
  return h;
}
inline uint64_t hashStr(const std::string & s) {return hashStr(s.c_str());}

class Rng
{
public:
  explicit Rng(uint64_t seed = 1) {reseed(seed);}
  void reseed(uint64_t seed)
  {
    uint64_t x = seed;
    for (auto & w : s_) {w = splitmix64(x);}
  }
  uint64_t next()
  {
    const uint64_t result = rotl(s_[1] * 5, 7) * 9;
    const uint64_t t = s_[1] << 17;
    s_[2] ^= s_[0]; s_[3] ^= s_[1]; s_[1] ^= s_[2]; s_[0] ^= s_[3];
    s_[2] ^= t; s_[3] = rotl(s_[3], 45);
    return result;
  }
  // uniform in [0, n), n > 0
  uint64_t below(uint64_t n) {return n <= 1 ? 0 : next() % n;}
  // uniform integer in [lo, hi]
  int64_t range(int64_t lo, int64_t hi)
  {
    return lo + (int64_t)below((uint64_t)(hi - lo) + 1);
  }
  double unit() {return (next() >> 11) * (1.0 / 9007199254740992.0);}
  double uniform(double lo, double hi) {return lo + (hi - lo) * unit();}
  double logUniform(double lo, double hi)
  {
    return std::exp(uniform(std::log(lo), std::log(hi)));
  }
  bool chance(double p) {return unit() < p;}
  // standard normal (Box-Muller, deterministic, no cached state)
  double normal()
  {
    double u1 = unit(); if (u1 < 1e-300) {u1 = 1e-300;}
    double u2 = unit();
    return std::sqrt(-2.0 * std::log(u1)) * std::cos(6.283185307179586 * u2);
  }
  template<class T> const T & pick(const std::vector<T> & v) {return v[below(v.size())];}
  template<class T, size_t N> const T & pick(const T (&a)[N]) {return a[below(N)];}

private:
  static uint64_t rotl(uint64_t x, int k) {return (x << k) | (x >> (64 - k));}
  uint64_t s_[4];
};

inline uint64_t bitsOf(double d) {uint64_t u; std::memcpy(&u, &d, 8); return u;}
inline uint32_t bitsOf(float f) {uint32_t u; std::memcpy(&u, &f, 4); return u;}

}  // namespace sim
