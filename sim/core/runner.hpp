// Seeded batch runner shared by all engines: worker processes, crash / hang
// capture, determinism gate, class-restricted shrinking, replay files,
// known-findings filter and evidence. See DESIGN.md section 3.
//
// The real clock is read only here (watchdog, wall time for the evidence and
// the wall-clock safety cap); no simulated run ever sees it.
#pragma once
#include <sys/mman.h>
#include <sys/wait.h>
#include <sys/stat.h>
#include <unistd.h>
#include <malloc.h>
#include <sys/resource.h>
#include <fcntl.h>
#include <poll.h>
#include <signal.h>
#include <time.h>

#include <algorithm>
#include <cerrno>
#include <cstdarg>
#include <cstdio>
#include <cstdlib>
#include <cstring>
#include <functional>
#include <map>
#include <set>
#include <string>
#include <unordered_set>
#include <vector>
#include <type_traits>

#include "prng.hpp"
#include "json.hpp"

namespace sim {

// ---------------------------------------------------------------- outcome / ctx
struct Outcome
{
  bool ok = true;
  std::string cls;     // violation class = oracle id (shrinking never leaves it)
  std::string detail;  // human-readable values
  static Outcome pass() {return Outcome();}
  static Outcome fail(const std::string & c, const std::string & d)
  {
    Outcome o; o.ok = false; o.cls = c; o.detail = d; return o;
  }
};

// Heap contents as a controlled input: glibc fills every fresh (non-calloc) allocation with the chosen byte and every
// freed block with its complement, so a member or buffer that is read before it was written shows the same, plan-chosen
// garbage in every run instead of whatever the previous run left there.
// The stack below the caller gets the complement byte (what freed heap blocks get), so that locals and temporaries of the
// run - fresh twins, bystanders - do not start from whatever the runner, the previous run or another call path left there.
inline int junkByte(int junk)
{
  static const int fill[5] = {0x00, 0x01, 0xFE, 0xA5, 0x7F};
  return fill[((junk % 5) + 5) % 5];
}
__attribute__((noinline)) inline void junkStack(int junk, size_t bytes)
{
  volatile unsigned char * p = (volatile unsigned char *)__builtin_alloca(bytes);
  std::memset((void *)p, (~junkByte(junk)) & 0xff, bytes);
  __asm__ volatile ("" : : "r" (p) : "memory");
}
inline void junkHeap(int junk, size_t stackBytes = 96 * 1024)
{
  mallopt(M_PERTURB, (~junkByte(junk)) & 0xff);
  junkStack(junk, stackBytes);
}

// A runaway allocation in the code under test (an append that never ends) must end in bad_alloc inside the one process that
// runs it, not in 16 workers eating the machine: 4 GiB of address space for every process that executes runs (the parent,
// which merges the statistics of very large batches, and sanitizer builds, which need far more, are not limited).
#if defined(__has_feature)
#if __has_feature(address_sanitizer) || __has_feature(thread_sanitizer) || __has_feature(memory_sanitizer)
#define SIM_NO_AS_LIMIT 1
#endif
#endif
inline void limitAddressSpace()
{
#if !defined(__SANITIZE_ADDRESS__) && !defined(__SANITIZE_THREAD__) && !defined(SIM_NO_AS_LIMIT)
  struct rlimit rl;
  if (getrlimit(RLIMIT_AS, &rl) == 0) {
    const rlim_t want = (rlim_t)4 << 30;
    if (rl.rlim_cur == RLIM_INFINITY || rl.rlim_cur > want) {rl.rlim_cur = want; setrlimit(RLIMIT_AS, &rl);}
  }
#endif
}

struct Slot;
inline Slot * gSlot = nullptr;

struct Ctx
{
  uint64_t h = 0x243f6a8885a308d3ULL;  // hash of the event log of this run
  bool record = false;                 // keep a textual event log (replay, samples)
  std::vector<std::string> trace;
  uint64_t steps = 0;                  // ops / events / scheduler steps executed
  double simSeconds = 0;               // simulated time covered (E2)
  void log(uint64_t v) {h = mix64(h, v);}
  void logd(double d) {log(bitsOf(d));}
  void logs(const std::string & s) {log(hashStr(s));}
  void note(const std::string & s) {if (record) {trace.push_back(s);}}
  inline void beat();
};

// ---------------------------------------------------------------- shared slots
constexpr int kMaxCounters = 320;
struct Slot
{
  volatile uint64_t curRun;
  volatile uint64_t beat;
  volatile uint64_t runsDone;
  volatile uint64_t truncatedAt;
  uint64_t nCounters;
  char names[kMaxCounters][64];
  uint64_t vals[kMaxCounters];
};
inline Slot * privateSlot()
{
  static Slot * s = (Slot *)calloc(1, sizeof(Slot));
  return s;
}
inline void Ctx::beat() {if (gSlot) {gSlot->beat = gSlot->beat + 1;}}

inline uint64_t & counter(const char * name)
{
  if (!gSlot) {gSlot = privateSlot();}
  Slot * s = gSlot;
  for (uint64_t k = 0; k < s->nCounters; ++k) {
    if (std::strcmp(s->names[k], name) == 0) {return s->vals[k];}
  }
  if (s->nCounters >= (uint64_t)kMaxCounters) {
    std::fprintf(stderr, "sim: too many counters (%s)\n", name); std::abort();
  }
  std::snprintf(s->names[s->nCounters], 64, "%s", name);
  s->vals[s->nCounters] = 0;
  return s->vals[s->nCounters++];
}
// Counters: "op.<x>", "fault.<kind>.configured", "fault.<kind>.fired", "probe.<x>".
// The cache is keyed on the slot so that a fork that switches slots stays right.
#define SIM_COUNT_N(name, n) do { \
    static ::sim::Slot * slot_ = nullptr; static uint64_t * c_ = nullptr; \
    if (slot_ != ::sim::gSlot || !c_) {c_ = &::sim::counter(name); slot_ = ::sim::gSlot;} \
    *c_ += (n); } while (0)
#define SIM_COUNT(name) SIM_COUNT_N(name, 1)
#define SIM_PROBE(name) SIM_COUNT("probe." name)

// ---------------------------------------------------------------- helpers
inline double wallNow()
{
  timespec ts; clock_gettime(CLOCK_MONOTONIC, &ts);
  return ts.tv_sec + ts.tv_nsec * 1e-9;
}
inline std::string fmt(const char * f, ...)
{
  char buf[2048]; va_list ap; va_start(ap, f); vsnprintf(buf, sizeof buf, f, ap); va_end(ap);
  return std::string(buf);
}
inline std::string dstr(double v) {return fmt("%.17g", v);}

// ddmin-style removal candidates for an op vector: chunks n/2, n/4, ..., 1.
template<class Op, class Emit>
void removalCandidates(const std::vector<Op> & ops, Emit emit)
{
  size_t n = ops.size();
  if (n == 0) {return;}
  for (size_t chunk = (n + 1) / 2; chunk >= 1; chunk = (chunk == 1 ? 0 : (chunk + 1) / 2)) {
    for (size_t start = 0; start < n; start += chunk) {
      std::vector<Op> c;
      c.reserve(n);
      for (size_t k = 0; k < n; ++k) {
        if (k < start || k >= start + chunk) {c.push_back(ops[k]);}
      }
      if (c.size() < n) {emit(std::move(c));}
    }
    if (chunk == 1) {break;}
  }
}

struct Options
{
  std::string tier = "quick";
  uint64_t seed = 1;
  int workers = 16;
  std::string out = "/verif";
  std::string replay;
  std::string knownFile;
  long long runOne = -1;
  long long maxRuns = -1;
  double wallCap = -1;
  bool digestOnly = false;
  bool noShrink = false;
  std::string note;
};

// optional members of a property, detected at compile time
template<class P, class = void> struct HasRefine : std::false_type {};
template<class P> struct HasRefine<P, std::void_t<decltype(std::declval<const P &>().refine(std::declval<typename P::Plan &>()))>>: std::true_type {};
template<class P, class = void> struct HasStopAfter : std::false_type {};
template<class P> struct HasStopAfter<P, std::void_t<decltype(std::declval<const P &>().stopAfterViolations())>>: std::true_type {};

struct FoundViolation
{
  uint64_t index; std::string cls; std::string detail;
};

// ---------------------------------------------------------------- the runner
template<class Prop>
class Runner
{
public:
  using Plan = typename Prop::Plan;

  Runner(Prop & p, const Options & o) : prop_(p), opt_(o) {}

  // Execute one plan in a forked child; survives crashes and hangs.
  Outcome runIsolated(const Plan & plan, uint64_t * hashOut = nullptr)
  {
    int fd[2];
    if (pipe(fd) != 0) {perror("pipe"); std::exit(2);}
    fflush(stdout); fflush(stderr);
    pid_t pid = fork();
    if (pid < 0) {perror("fork"); std::exit(2);}
    if (pid == 0) {
      limitAddressSpace();
      close(fd[0]);
      gSlot = privateSlot();
      int devnull = open("/dev/null", O_WRONLY);
      dup2(fd[1], 2);  // assert text of a dying library call ends up in the detail
      if (devnull >= 0) {dup2(devnull, 1);}
      Ctx c;
      Outcome o = prop_.execute(plan, c);
      std::string msg = fmt("\x01RESULT %d %016llx ", o.ok ? 1 : 0, (unsigned long long)c.h) +
        o.cls + "\x02" + o.detail + "\x03";
      ssize_t w = write(fd[1], msg.data(), msg.size()); (void)w;
      _exit(0);
    }
    close(fd[1]);
    std::string buf;
    double t0 = wallNow();
    bool timedOut = false;
    for (;; ) {
      pollfd pf {fd[0], POLLIN, 0};
      int r = poll(&pf, 1, 200);
      if (r > 0) {
        char tmp[4096]; ssize_t n = read(fd[0], tmp, sizeof tmp);
        if (n > 0) {if (buf.size() < (1u << 20)) {buf.append(tmp, (size_t)n);}} else {break;}
      }
      if (wallNow() - t0 > prop_.hangSeconds()) {timedOut = true; kill(pid, SIGKILL); break;}
    }
    close(fd[0]);
    int st = 0; waitpid(pid, &st, 0);
    if (timedOut) {return Outcome::fail("hang", "no result within the wall-clock cap");}
    size_t p = buf.find("\x01RESULT ");
    if (p != std::string::npos) {
      int ok = 0; unsigned long long h = 0;
      sscanf(buf.c_str() + p + 8, "%d %llx", &ok, &h);
      if (hashOut) {*hashOut = h;}
      size_t a = buf.find(' ', buf.find(' ', p + 8) + 1) + 1;
      size_t b = buf.find('\x02', a), e = buf.find('\x03', b);
      Outcome o; o.ok = ok != 0;
      if (b != std::string::npos && e != std::string::npos) {
        o.cls = buf.substr(a, b - a); o.detail = buf.substr(b + 1, e - b - 1);
      }
      return o;
    }
    std::string why = WIFSIGNALED(st) ? fmt("signal %d", WTERMSIG(st)) :
      fmt("exit status %d", WEXITSTATUS(st));
    std::string err = buf.substr(0, 600);
    for (auto & ch : err) {if (ch == '\n') {ch = ' ';}}
    return Outcome::fail("crash", why + ": " + err);
  }

  Plan shrink(Plan plan, const std::string & cls, int & attempts)
  {
    attempts = 0;
    double t0 = wallNow();
    bool progress = true;
    while (progress && attempts < 4000 && wallNow() - t0 < 90) {
      progress = false;
      std::vector<Plan> cands = prop_.simpler(plan);
      for (auto & c : cands) {
        ++attempts;
        Outcome o = runIsolated(c);
        if (!o.ok && o.cls == cls) {plan = c; progress = true; break;}
        if (attempts >= 4000 || wallNow() - t0 > 90) {break;}
      }
    }
    if constexpr (HasRefine<Prop>::value) {
      // e.g. E3: capture the seeded schedule as an explicit trace, then minimise the trace as well
      Plan q = plan;
      if (!refined_ && prop_.refine(q)) {
        Outcome o = runIsolated(q); ++attempts;
        if (o.ok || o.cls != cls) {
          std::printf("note: refined plan (explicit schedule) gave ok=%d class=%s instead of %s; keeping the seeded schedule\n",
            o.ok, o.cls.c_str(), cls.c_str());
        }
        if (!o.ok && o.cls == cls) {
          refined_ = true; int more = 0; plan = shrink(q, cls, more); attempts += more; refined_ = false;
        }
      }
    }
    return plan;
  }

  int replayFile(const std::string & path)
  {
    Json f = Json::parseFile(path);
    Plan plan = prop_.fromJson(f["plan"]);
    gSlot = privateSlot();
    Ctx c; c.record = true;
    Outcome o = prop_.execute(plan, c);
    for (auto & l : c.trace) {std::printf("  %s\n", l.c_str());}
    std::printf("REPLAY property=%s ok=%d class=%s hash=%016llx\n  detail: %s\n", Prop::id,
      o.ok ? 1 : 0, o.cls.c_str(), (unsigned long long)c.h, o.detail.c_str());
    if (!o.ok) {
      std::printf("REPLAY-VIOLATION property=%s class=%s\n", Prop::id, o.cls.c_str());
      return 1;
    }
    return 0;
  }

  // fresh process: fork + exec of this very binary with --replay
  bool freshReplay(const std::string & path, const std::string & cls)
  {
    int fd[2]; if (pipe(fd) != 0) {return false;}
    fflush(stdout);
    pid_t pid = fork();
    if (pid == 0) {
      limitAddressSpace();
      close(fd[0]); dup2(fd[1], 1); dup2(fd[1], 2);
      execl("/proc/self/exe", Prop::id, "--replay", path.c_str(), (char *)nullptr);
      _exit(127);
    }
    close(fd[1]);
    std::string buf; char tmp[4096]; ssize_t n;
    double t0 = wallNow();
    for (;; ) {
      pollfd pf {fd[0], POLLIN, 0};
      int r = poll(&pf, 1, 200);
      if (r > 0) {n = read(fd[0], tmp, sizeof tmp); if (n <= 0) {break;} buf.append(tmp, (size_t)n);}
      if (wallNow() - t0 > prop_.hangSeconds() + 5) {kill(pid, SIGKILL); break;}
    }
    close(fd[0]);
    int st = 0; waitpid(pid, &st, 0);
    if (cls == "hang") {return WIFSIGNALED(st) && WTERMSIG(st) == SIGKILL;}
    if (cls == "crash") {
      return WIFSIGNALED(st) || (WIFEXITED(st) && WEXITSTATUS(st) != 0 && WEXITSTATUS(st) != 1) ||
             buf.find("class=crash") != std::string::npos;
    }
    return buf.find("REPLAY-VIOLATION property=" + std::string(Prop::id) + " class=" + cls + "\n") !=
           std::string::npos;
  }

  int main()
  {
    if (!opt_.replay.empty()) {
      prop_.configure(opt_.tier, opt_.seed);
      return replayFile(opt_.replay);
    }
    double t0 = wallNow();
    prop_.configure(opt_.tier, opt_.seed);
    uint64_t total = prop_.totalRuns();
    if (opt_.maxRuns >= 0 && (uint64_t)opt_.maxRuns < total) {total = (uint64_t)opt_.maxRuns;}
    double cap = opt_.wallCap > 0 ? opt_.wallCap : prop_.wallCapSeconds();
    int W = std::max(1, std::min(opt_.workers, 64));
    if (total < (uint64_t)W) {W = (int)std::max<uint64_t>(1, total);}

    std::printf("%s: tier=%s seed=%llu runs=%llu workers=%d\n", Prop::id, opt_.tier.c_str(),
      (unsigned long long)opt_.seed, (unsigned long long)total, W);
    fflush(stdout);

    if (opt_.runOne >= 0) {
      Plan p = prop_.generate((uint64_t)opt_.runOne);
      std::printf("%s\n", prop_.toJson(p).dump(1).c_str());
      gSlot = privateSlot();
      Ctx c; c.record = true; Outcome o = prop_.execute(p, c);
      for (auto & l : c.trace) {std::printf("  %s\n", l.c_str());}
      std::printf("ok=%d class=%s detail=%s hash=%016llx\n", o.ok, o.cls.c_str(), o.detail.c_str(),
        (unsigned long long)c.h);
      return o.ok ? 0 : 1;
    }

    tmpDir_ = opt_.out + "/build/tmp/" + Prop::id + "-" + std::to_string(getpid());
    std::string mk = "mkdir -p '" + tmpDir_ + "' '" + opt_.out + "/evidence' '" + opt_.out +
      "/replays'";
    if (system(mk.c_str()) != 0) {std::fprintf(stderr, "cannot create %s\n", tmpDir_.c_str()); return 2;}

    slots_ = (Slot *)mmap(nullptr, sizeof(Slot) * (size_t)(W + 1), PROT_READ | PROT_WRITE,
        MAP_SHARED | MAP_ANONYMOUS, -1, 0);
    if (slots_ == MAP_FAILED) {perror("mmap"); return 2;}
    std::memset(slots_, 0, sizeof(Slot) * (size_t)(W + 1));

    struct WorkerState {pid_t pid = -1; uint64_t lastBeat = 0; double lastChange = 0; int gen = 0;
      bool done = false;};
    std::vector<WorkerState> ws((size_t)W);
    std::vector<FoundViolation> found;
    int crashes = 0, hangs = 0;

    auto spawn = [&](int w, uint64_t startIndex) {
        fflush(stdout); fflush(stderr);
        pid_t pid = fork();
        if (pid < 0) {perror("fork"); std::exit(2);}
        if (pid == 0) {
          limitAddressSpace();
          workerLoop(w, W, startIndex, total, ws[(size_t)w].gen, t0, cap);
          _exit(0);
        }
        ws[(size_t)w].pid = pid; ws[(size_t)w].lastBeat = slots_[w].beat;
        ws[(size_t)w].lastChange = wallNow();
      };
    for (int w = 0; w < W; ++w) {slots_[w].curRun = (uint64_t)w; spawn(w, (uint64_t)w);}

    int alive = W;
    while (alive > 0) {
      bool any = false;
      for (int w = 0; w < W; ++w) {
        WorkerState & s = ws[(size_t)w];
        if (s.done) {continue;}
        int st = 0;
        pid_t r = waitpid(s.pid, &st, WNOHANG);
        if (r == s.pid) {
          any = true;
          if (WIFEXITED(st) && WEXITSTATUS(st) == 0) {s.done = true; --alive; continue;}
          uint64_t at = slots_[w].curRun;
          ++crashes;
          found.push_back({at, "crash", WIFSIGNALED(st) ? fmt("worker died with signal %d",
              WTERMSIG(st)) : fmt("worker exited with status %d", WEXITSTATUS(st))});
          if (crashes + hangs > 40 || at + (uint64_t)W >= total) {s.done = true; --alive; continue;}
          ++s.gen; spawn(w, at + (uint64_t)W);
          continue;
        }
        uint64_t b = slots_[w].beat;
        double now = wallNow();
        if (b != s.lastBeat) {s.lastBeat = b; s.lastChange = now;} else if (now - s.lastChange >
          prop_.hangSeconds())
        {
          uint64_t at = slots_[w].curRun;
          kill(s.pid, SIGKILL); waitpid(s.pid, &st, 0);
          ++hangs;
          found.push_back({at, "hang", "worker made no progress within the wall-clock cap"});
          if (crashes + hangs > 40 || at + (uint64_t)W >= total) {s.done = true; --alive; continue;}
          ++s.gen; spawn(w, at + (uint64_t)W);
        }
      }
      if (!any) {usleep(20000);}
    }

    // ---- gather worker output
    uint64_t runs = 0, steps = 0, digest = 0, rechecks = 0, nondet = 0, truncated = 0;
    double simSeconds = 0;
    std::vector<uint64_t> allShapes;
    bool shapeCapHit = false;
    for (int w = 0; w < W; ++w) {
      for (int g = 0; g <= ws[(size_t)w].gen; ++g) {
        std::string base = tmpDir_ + "/w" + std::to_string(w) + "g" + std::to_string(g);
        FILE * vf = fopen((base + ".viol").c_str(), "r");
        if (vf) {
          char line[4096];
          while (fgets(line, sizeof line, vf)) {
            unsigned long long idx; char cls[256]; int off = 0;
            if (sscanf(line, "%llu\t%255[^\t]\t%n", &idx, cls, &off) >= 2) {
              std::string d = line + off; if (!d.empty() && d.back() == '\n') {d.pop_back();}
              found.push_back({idx, cls, d});
            }
          }
          fclose(vf);
        }
        FILE * sf = fopen((base + ".stat").c_str(), "r");
        if (sf) {
          unsigned long long r, s, d, rc, nd, tr, cp; double sim;
          if (fscanf(sf, "%llu %llu %llu %llu %llu %llu %llu %lf", &r, &s, &d, &rc, &nd, &tr, &cp,
            &sim) == 8)
          {
            runs += r; steps += s; digest += d; rechecks += rc; nondet += nd; truncated += tr;
            simSeconds += sim; if (cp) {shapeCapHit = true;}
          }
          fclose(sf);
        }
        FILE * hf = fopen((base + ".shapes").c_str(), "rb");
        if (hf) {
          uint64_t rec[4096]; size_t got;
          while ((got = fread(rec, sizeof(uint64_t), 4096, hf)) > 0) {
            allShapes.insert(allShapes.end(), rec, rec + got);
          }
          fclose(hf);
        }
      }
    }
    std::sort(allShapes.begin(), allShapes.end());
    allShapes.erase(std::unique(allShapes.begin(), allShapes.end()), allShapes.end());
    uint64_t nShapes = 0, nNontrivial = 0;
    for (size_t k = 0; k < allShapes.size(); ++k) {
      // a shape seen both as trivial and non-trivial cannot happen (nontrivial is a function of the plan)
      if (k == 0 || (allShapes[k] | 1ULL) != (allShapes[k - 1] | 1ULL)) {++nShapes;}
      if (allShapes[k] & 1ULL) {++nNontrivial;}
    }
    std::vector<uint64_t>().swap(allShapes);
    std::map<std::string, uint64_t> counters;
    for (int w = 0; w < W; ++w) {
      for (uint64_t k = 0; k < slots_[w].nCounters; ++k) {
        counters[slots_[w].names[k]] += slots_[w].vals[k];
      }
    }
    double tRun = wallNow() - t0;
    std::printf("%s: executed %llu runs, %llu steps in %.1f s; digest %016llx; %zu candidate "
      "violation(s)\n", Prop::id, (unsigned long long)runs, (unsigned long long)steps, tRun,
      (unsigned long long)digest, found.size());
    fflush(stdout);
    if (opt_.digestOnly) {
      std::printf("DIGEST %016llx runs=%llu\n", (unsigned long long)digest, (unsigned long long)runs);
      cleanup();
      return nondet ? 2 : (found.empty() ? 0 : 1);
    }
    if (nondet) {
      // Runs whose event log differs between two executions in the same process. On a correct tree this is a
      // harness defect (exit 2). It also happens when the code under test reads indeterminate memory (e.g. an
      // out-of-bounds read); violations are still decided below - each of them must reproduce twice in isolated
      // processes and once more from its replay file - and only if none is established does the check exit 2.
      std::printf("note: %llu run(s) did not repeat bit-identically inside a worker\n", (unsigned long long)nondet);
    }

    // ---- decide violations: gate, shrink, replay, known-findings filter
    std::sort(found.begin(), found.end(), [](const FoundViolation & a, const FoundViolation & b) {
        return a.index < b.index;
      });
    Json known = loadKnown();
    std::map<std::string, std::vector<FoundViolation>> byClass;
    for (auto & f : found) {byClass[f.cls].push_back(f);}
    int nViol = 0, nKnown = 0, harnessErr = 0;
    Json reported = Json::array();
    std::set<std::string> knownPrinted;
    for (auto & kv : byClass) {
      int tried = 0; bool decided = false;
      if (kv.first == "nondeterministic") {continue;}
      if (kv.first.rfind("harness:", 0) == 0) {
        std::printf("HARNESS-ERROR property=%s: %s (%s) in %zu run(s), first run %llu\n", Prop::id, kv.first.c_str(),
          kv.second.front().detail.c_str(), kv.second.size(), (unsigned long long)kv.second.front().index);
        ++harnessErr; continue;
      }
      for (auto & f : kv.second) {
        if (tried >= 6) {break;}
        ++tried;
        Plan plan = prop_.generate(f.index);
        uint64_t h1 = 0, h2 = 0;
        Outcome o1 = runIsolated(plan, &h1);
        Outcome o2 = runIsolated(plan, &h2);
        bool same = (o1.ok == o2.ok) && o1.cls == o2.cls && (o1.cls == "crash" || o1.cls == "hang" ||
          h1 == h2);
        if (!same || o1.ok) {
          // a worker-only failure that does not repeat in a clean process
          if (kv.first == "crash" || kv.first == "hang") {
            std::printf("note: %s of run %llu did not reproduce in a fresh process (%s)\n",
              kv.first.c_str(), (unsigned long long)f.index, f.detail.c_str());
            if (tried >= 3) {++harnessErr; break;}
            continue;
          }
          std::printf("HARNESS-ERROR property=%s: run %llu class %s does not repeat (ok=%d/%d "
            "hash %016llx/%016llx)\n", Prop::id, (unsigned long long)f.index, kv.first.c_str(),
            o1.ok, o2.ok, (unsigned long long)h1, (unsigned long long)h2);
          ++harnessErr; break;
        }
        std::string cls = o1.cls;
        int attempts = 0;
        Plan minPlan = opt_.noShrink ? plan : shrink(plan, cls, attempts);
        Outcome om = runIsolated(minPlan);
        std::string sig = prop_.signature(minPlan, om);
        std::string path = opt_.out + "/replays/" + Prop::id + "-" + std::to_string(f.index) + "-" +
          fmt("%08x", (unsigned)(hashStr(cls) & 0xffffffffu)) + ".json";
        Json rf = Json::object();
        rf.set("property", Prop::id).set("engine", Prop::engine).set("verif_seed", opt_.seed)
        .set("tier", opt_.tier).set("run_index", f.index).set("expected_class", cls)
        .set("signature", sig).set("detail", om.detail).set("shrink_attempts", attempts)
        .set("original_size", prop_.planSize(plan)).set("minimised_size", prop_.planSize(minPlan))
        .set("build_variant", getenv("VERIF_VARIANT") ? getenv("VERIF_VARIANT") : "default")
        .set("plan", prop_.toJson(minPlan));
        {
          // event log of the minimised run, produced in an isolated child
          rf.set("replay_cmd", std::string("./check ") + Prop::id + " --replay " + path);
        }
        rf.writeFile(path);
        if (!freshReplay(path, cls)) {
          std::printf("HARNESS-ERROR property=%s: replay file %s does not reproduce class %s in a "
            "fresh process\n", Prop::id, path.c_str(), cls.c_str());
          ++harnessErr; break;
        }
        const Json * k = findKnown(known, sig);
        if (k) {
          if (!knownPrinted.count(sig)) {
            knownPrinted.insert(sig);
            std::printf("KNOWN-FINDING: property=%s %s [%s]\n", Prop::id,
              (*k)["description"].s().c_str(), sig.c_str());
            ++nKnown;
          }
          unlink(path.c_str());
          continue;  // look at the next run of this class: a different failure must still be reported
        }
        std::printf("VIOLATION property=%s replay=%s\n", Prop::id, path.c_str());
        std::printf("  class=%s signature=%s\n  run_index=%llu ops %llu -> %llu after %d shrink "
          "attempts\n  detail: %s\n", cls.c_str(), sig.c_str(), (unsigned long long)f.index,
          (unsigned long long)prop_.planSize(plan), (unsigned long long)prop_.planSize(minPlan),
          attempts, om.detail.c_str());
        Json r = Json::object();
        r.set("class", cls).set("signature", sig).set("replay", path).set("detail", om.detail)
        .set("runs_with_this_class", (uint64_t)kv.second.size());
        reported.push(r);
        ++nViol; decided = true;
        break;
      }
      (void)decided;
      fflush(stdout);
    }

    // ---- evidence
    double wall = wallNow() - t0;
    Json cov = Json::object();
    cov.set("evaluations", runs);
    cov.set("distinct_nontrivial", nNontrivial);
    cov.set("distinct_plans", nShapes);
    cov.set("distinct_count_is_lower_bound", shapeCapHit);
    Json desc = prop_.describe();
    cov.set("rule", desc["rule"]);
    Json samples = Json::array();
    {
      std::vector<uint64_t> idx = prop_.sampleIndexes();
      for (uint64_t i : idx) {
        if (i >= total) {continue;}
        Json s = Json::object();
        s.set("run_index", i).set("plan", prop_.toJson(prop_.generate(i)));
        samples.push(s);
      }
    }
    cov.set("samples", samples);
    if (desc.has("exhaustive")) {cov.set("exhaustive", desc["exhaustive"]);}
    if (desc.has("exhaustive_subspaces")) {cov.set("exhaustive_subspaces", desc["exhaustive_subspaces"]);}
    cov.set("steps_executed", steps);
    cov.set("simulated_time", desc.has("simulated_time_unit") ? desc["simulated_time_unit"] :
      Json("none (no clock in this property): steps_executed counts operations"));
    cov.set("simulated_seconds", simSeconds);
    cov.set("runs_per_hour", wall > 0 ? (double)runs / tRun * 3600.0 : 0.0);
    cov.set("seeds_per_hour", wall > 0 ? (double)runs / tRun * 3600.0 : 0.0);
    cov.set("workers", W);
    cov.set("batch_digest", fmt("%016llx", (unsigned long long)digest));
    cov.set("determinism_rechecks_in_batch", rechecks);
    cov.set("budget_truncated_runs", truncated);
    cov.set("runs_not_repeating_bit_identically", nondet);
    Json faults = Json::object(), probes = Json::object(), ops = Json::object(), other = Json::object();
    std::map<std::string, std::pair<uint64_t, uint64_t>> fk;
    for (auto & c : counters) {
      const std::string & n = c.first;
      if (n.rfind("fault.", 0) == 0) {
        size_t dot = n.rfind('.');
        std::string kind = n.substr(6, dot - 6), what = n.substr(dot + 1);
        if (what == "configured") {fk[kind].first += c.second;} else {fk[kind].second += c.second;}
      } else if (n.rfind("probe.", 0) == 0) {probes.set(n.substr(6), c.second);} else if (n.rfind(
          "op.", 0) == 0)
      {ops.set(n.substr(3), c.second);} else {other.set(n, c.second);}
    }
    for (auto & f : fk) {
      Json e = Json::object(); e.set("configured", f.second.first).set("fired", f.second.second);
      faults.set(f.first, e);
    }
    Json unreached = Json::array();
    for (auto & pn : prop_.probeNames()) {
      if (!counters.count("probe." + pn) || counters["probe." + pn] == 0) {unreached.push(pn);}
    }
    cov.set("fault_kinds", faults);
    cov.set("probes", probes);
    cov.set("unreached_probes", unreached);
    cov.set("ops", ops);
    if (other.size()) {cov.set("counters", other);}
    if (desc.has("phases")) {cov.set("phases", desc["phases"]);}
    if (desc.has("components")) {cov.set("components", desc["components"]);}
    if (desc.has("oracles")) {cov.set("oracles", desc["oracles"]);}
    cov.set("worker_crashes", crashes).set("worker_hangs", hangs);
    if (!opt_.note.empty()) {cov.set("other_build_configurations", opt_.note);}
    cov.set("violations_reported", reported);
    cov.set("known_findings_seen", nKnown);
    Json ev = Json::object();
    ev.set("property_id", Prop::id).set("tier", opt_.tier).set("seed", opt_.seed)
    .set("level", "exploration").set("coverage", cov)
    .set("assumptions", desc["assumptions"]).set("wall_s", wall).set("violations", nViol);
    ev.writeFile(opt_.out + "/evidence/" + Prop::id + ".json");
    cleanup();

    if (nViol) {return 1;}
    if (harnessErr || nondet) {
      if (nondet) {std::printf("HARNESS-ERROR property=%s: %llu run(s) did not repeat bit-identically and no violation was established\n", Prop::id, (unsigned long long)nondet);}
      std::printf("%s: harness error (exit 2) - not a statement about the library\n", Prop::id);
      return 2;
    }
    std::printf("%s: OK - %llu runs, %llu distinct non-trivial plans, %d known finding(s), %.1f s\n",
      Prop::id, (unsigned long long)runs, (unsigned long long)nNontrivial, nKnown, wall);
    return 0;
  }

private:
  void workerLoop(int w, int W, uint64_t start, uint64_t total, int gen, double t0, double cap)
  {
    gSlot = &slots_[w];
    std::string base = tmpDir_ + "/w" + std::to_string(w) + "g" + std::to_string(gen);
    FILE * vf = fopen((base + ".viol").c_str(), "w");
    uint64_t runs = 0, steps = 0, digest = 0, rechecks = 0, nondet = 0, truncated = 0, nviol = 0;
    double simSeconds = 0;
    std::map<std::string, int> loggedPerClass;  // at most 20 runs per violation class are logged by a worker
    std::vector<uint64_t> shapeRecs;  // (hash & ~1) | nontrivial
    const size_t shapeCap = 6000000; bool capHit = false;
    for (uint64_t i = start; i < total; i += (uint64_t)W) {
      gSlot->curRun = i; gSlot->beat = gSlot->beat + 1;
      if ((runs & 127) == 0 && wallNow() - t0 > cap) {
        truncated = (total - i + (uint64_t)W - 1) / (uint64_t)W; break;
      }
      Plan plan = prop_.generate(i);
      Ctx c;
      Outcome o = prop_.execute(plan, c);
      ++runs; steps += c.steps; simSeconds += c.simSeconds;
      digest += mix64(i, c.h);
      if (i % 97 == 0) {
        Ctx c2; Outcome o2 = prop_.execute(plan, c2); ++rechecks;
        if (c2.h != c.h || o2.ok != o.ok || o2.cls != o.cls) {
          ++nondet;
          if (vf) {fprintf(vf, "%llu\tnondeterministic\trepeat hash %016llx vs %016llx\n",
              (unsigned long long)i, (unsigned long long)c.h, (unsigned long long)c2.h); fflush(vf);}
        }
      }
      if (!capHit) {
        shapeRecs.push_back((prop_.shapeHash(plan) & ~1ULL) | (prop_.nontrivial(plan) ? 1ULL : 0ULL));
        if (shapeRecs.size() >= shapeCap) {
          std::sort(shapeRecs.begin(), shapeRecs.end());
          shapeRecs.erase(std::unique(shapeRecs.begin(), shapeRecs.end()), shapeRecs.end());
          if (shapeRecs.size() >= shapeCap * 3 / 4) {capHit = true;}
        }
      }
      if (!o.ok) {++nviol;}
      if (!o.ok && ++loggedPerClass[o.cls] <= 20) {
        std::string d = o.detail; for (auto & ch : d) {if (ch == '\n' || ch == '\t') {ch = ' ';}}
        if (vf) {fprintf(vf, "%llu\t%s\t%s\n", (unsigned long long)i, o.cls.c_str(), d.c_str());
          fflush(vf);}
      }
      gSlot->runsDone = runs;
      if constexpr (HasStopAfter<Prop>::value) {
        if (nviol >= prop_.stopAfterViolations()) {truncated = (total - i) / (uint64_t)W; break;}
      }
    }
    if (vf) {fclose(vf);}
    std::sort(shapeRecs.begin(), shapeRecs.end());
    shapeRecs.erase(std::unique(shapeRecs.begin(), shapeRecs.end()), shapeRecs.end());
    FILE * hf = fopen((base + ".shapes").c_str(), "wb");
    if (hf) {fwrite(shapeRecs.data(), sizeof(uint64_t), shapeRecs.size(), hf); fclose(hf);}
    FILE * sf = fopen((base + ".stat").c_str(), "w");
    if (sf) {
      fprintf(sf, "%llu %llu %llu %llu %llu %llu %llu %.9g\n", (unsigned long long)runs,
        (unsigned long long)steps, (unsigned long long)digest, (unsigned long long)rechecks,
        (unsigned long long)nondet, (unsigned long long)truncated, (unsigned long long)(capHit ? 1 : 0),
        simSeconds);
      fclose(sf);
    }
  }

  Json loadKnown()
  {
    std::string path = opt_.knownFile.empty() ? std::string("/verif/known_findings.json") :
      opt_.knownFile;
    try {return Json::parseFile(path);} catch (...) {return Json::object();}
  }
  const Json * findKnown(const Json & known, const std::string & sig)
  {
    const Json & list = known["known"];
    if (!list.isArr()) {return nullptr;}
    for (auto & e : list.a()) {
      if (e["property"].s() == Prop::id && e["signature"].s() == sig) {return &e;}
    }
    return nullptr;
  }
  void cleanup()
  {
    if (!tmpDir_.empty()) {
      std::string rm = "rm -rf '" + tmpDir_ + "'"; int r = system(rm.c_str()); (void)r;
    }
  }

  Prop & prop_;
  bool refined_ = false;
  Options opt_;
  Slot * slots_ = nullptr;
  std::string tmpDir_;
};

inline Options parseOptions(int argc, char ** argv)
{
  Options o;
  if (const char * e = getenv("VERIF_SEED")) {o.seed = strtoull(e, nullptr, 10);}
  if (const char * e = getenv("VERIF_TIER")) {if (*e) {o.tier = e;}}
  if (const char * e = getenv("VERIF_WORKERS")) {o.workers = atoi(e);}
  if (const char * e = getenv("VERIF_OUT")) {if (*e) {o.out = e;}}
  if (const char * e = getenv("VERIF_KNOWN")) {if (*e) {o.knownFile = e;}}
  long nproc = sysconf(_SC_NPROCESSORS_ONLN);
  if (!getenv("VERIF_WORKERS")) {o.workers = (int)std::min<long>(16, std::max<long>(1, nproc));}
  for (int k = 1; k < argc; ++k) {
    std::string a = argv[k];
    auto nextArg = [&]() -> std::string {
        if (k + 1 >= argc) {std::fprintf(stderr, "missing value for %s\n", a.c_str()); std::exit(2);}
        return argv[++k];
      };
    if (a == "quick" || a == "thorough") {o.tier = a;} else if (a == "--tier") {o.tier = nextArg();}
    else if (a == "--seed") {o.seed = strtoull(nextArg().c_str(), nullptr, 10);}
    else if (a == "--workers") {o.workers = atoi(nextArg().c_str());}
    else if (a == "--replay") {o.replay = nextArg();}
    else if (a == "--out") {o.out = nextArg();}
    else if (a == "--known") {o.knownFile = nextArg();}
    else if (a == "--run-one") {o.runOne = atoll(nextArg().c_str());}
    else if (a == "--max-runs") {o.maxRuns = atoll(nextArg().c_str());}
    else if (a == "--wall-cap") {o.wallCap = atof(nextArg().c_str());}
    else if (a == "--digest-only") {o.digestOnly = true;}
    else if (a == "--no-shrink") {o.noShrink = true;}
    else if (a == "--note") {o.note = nextArg();}
    else {std::fprintf(stderr, "unknown argument %s\n", a.c_str()); std::exit(2);}
  }
  if (o.tier != "quick" && o.tier != "thorough") {
    std::fprintf(stderr, "tier must be quick or thorough\n"); std::exit(2);
  }
  return o;
}

template<class Prop>
int simMain(int argc, char ** argv)
{
  // glibc's per-thread cache hands blocks back without the M_PERTURB fill (and with its own list pointers in them): switch
  // it off, which can only be done through the environment at process start, so re-execute once with the tunable set.
  {
    const char * t = getenv("GLIBC_TUNABLES");
    if ((!t || !strstr(t, "glibc.malloc.tcache_count=0")) && !getenv("VERIF_NO_REEXEC")) {
      std::string v = (t && *t) ? std::string(t) + ":glibc.malloc.tcache_count=0" : "glibc.malloc.tcache_count=0";
      setenv("GLIBC_TUNABLES", v.c_str(), 1); setenv("VERIF_NO_REEXEC", "1", 1);
      execv("/proc/self/exe", argv);
    }
  }
  setvbuf(stdout, nullptr, _IOLBF, 0);
  Options o = parseOptions(argc, argv);
  Prop p;
  Runner<Prop> r(p, o);
  return r.main();
}

}  // namespace sim
