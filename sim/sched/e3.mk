# Engine E3: repository sources + workload compiled by clang with -fsanitize=thread
# instrumentation, linked WITHOUT libtsan against the simulator's own runtime.
E3CXX      := clang++
E3INSTR    := -std=c++17 -O1 -g -fsanitize=thread -fno-omit-frame-pointer $(INC) -I. -MMD -MP
E3PLAIN    := -std=c++17 -O2 -g -Wall $(INC) -I. -MMD -MP
E3SRC      := monitoring/OnlineAverage.cpp monitoring/OnlineVariance.cpp monitoring/RateMonitoring.cpp \
              diagnostics/CheckupRate.cpp diagnostics/CheckupReliability.cpp diagnostics/Diagnostic.cpp \
              diagnostics/DiagnosticReport.cpp diagnostics/DiagnosticStatus.cpp
E3WRAP     := pthread_mutex_lock pthread_mutex_unlock pthread_mutex_trylock pthread_mutex_timedlock pthread_mutex_clocklock \
              pthread_rwlock_rdlock pthread_rwlock_wrlock pthread_rwlock_tryrdlock pthread_rwlock_trywrlock pthread_rwlock_unlock \
              pthread_spin_lock pthread_spin_unlock pthread_once \
              __cxa_guard_acquire __cxa_guard_release __cxa_guard_abort \
              pthread_cond_wait pthread_cond_timedwait pthread_cond_signal pthread_cond_broadcast \
              memcpy memmove memset
E3WRAPFLAGS := $(foreach w,$(E3WRAP),-Wl,--wrap=$(w))
E3OBJS     := $(addprefix $(B)/e3/repo/,$(E3SRC:.cpp=.o)) $(B)/e3/C19_work.o $(B)/e3/rt.o $(B)/e3/C19.o

$(B)/e3/repo/%.o: $(REPO)/src/%.cpp
	@mkdir -p $(dir $@)
	$(E3CXX) $(E3INSTR) -c $< -o $@
$(B)/e3/C19_work.o: props/C19_work.cpp
	@mkdir -p $(dir $@)
	$(E3CXX) $(E3INSTR) -c $< -o $@
$(B)/e3/rt.o: sim/sched/rt.cpp
	@mkdir -p $(dir $@)
	$(CXX) $(E3PLAIN) -c $< -o $@
$(B)/e3/C19.o: props/C19.cpp
	@mkdir -p $(dir $@)
	$(CXX) $(E3PLAIN) -c $< -o $@

# thread_local state would be shared by all fibers of the one OS thread: refuse to build if the anchored code grows one
$(B)/e3/no_thread_local.stamp: $(addprefix $(REPO)/src/,$(E3SRC)) $(wildcard $(REPO)/include/romea_core_common/diagnostic/*.hpp $(REPO)/include/romea_core_common/monitoring/*.hpp $(REPO)/include/romea_core_common/concurrency/*.hpp)
	@mkdir -p $(dir $@)
	@if grep -n "thread_local" $^ ; then echo "E3: thread_local found in the simulated code: fibers would share it (harness limitation)"; exit 1; fi
	@touch $@

$(B)/C19: $(B)/e3/no_thread_local.stamp $(E3OBJS)
	$(CXX) -rdynamic -o $@ $(E3OBJS) $(E3WRAPFLAGS) -ldl -lpthread

e3: $(B)/C19
