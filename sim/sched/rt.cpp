// E3 schedsim runtime. NOT instrumented (compiled without -fsanitize=thread):
// it answers the instrumentation calls (__tsan_*) that clang inserted into the
// repository's sources, replaces pthread mutexes by simulated ones through
// -Wl,--wrap, and owns every scheduling decision.
#include "rt.hpp"

#include <dlfcn.h>
#include <cxxabi.h>
#include <malloc.h>
#include <pthread.h>
#include <sys/mman.h>
#include <ucontext.h>
#include <unistd.h>

#include <algorithm>
#include <cstdio>
#include <cstdlib>
#include <cstring>
#include <unordered_map>

#include "../core/prng.hpp"

extern "C" {
void * __libc_malloc(size_t);
void __libc_free(void *);
void * __libc_realloc(void *, size_t);
int __real_pthread_mutex_lock(pthread_mutex_t *);
int __real_pthread_mutex_unlock(pthread_mutex_t *);
int __real_pthread_mutex_trylock(pthread_mutex_t *);
int __real_pthread_mutex_timedlock(pthread_mutex_t *, const struct timespec *);
int __real_pthread_mutex_clocklock(pthread_mutex_t *, clockid_t, const struct timespec *);
int __real_pthread_rwlock_rdlock(pthread_rwlock_t *);
int __real_pthread_rwlock_wrlock(pthread_rwlock_t *);
int __real_pthread_rwlock_tryrdlock(pthread_rwlock_t *);
int __real_pthread_rwlock_trywrlock(pthread_rwlock_t *);
int __real_pthread_rwlock_unlock(pthread_rwlock_t *);
int __real_pthread_once(pthread_once_t *, void (*)(void));
int __real___cxa_guard_acquire(long long *);
void __real___cxa_guard_release(long long *);
void __real___cxa_guard_abort(long long *);
int __real_pthread_cond_wait(pthread_cond_t *, pthread_mutex_t *);
int __real_pthread_cond_timedwait(pthread_cond_t *, pthread_mutex_t *, const struct timespec *);
int __real_pthread_cond_signal(pthread_cond_t *);
int __real_pthread_cond_broadcast(pthread_cond_t *);
int __real_pthread_spin_lock(pthread_spinlock_t *);
int __real_pthread_spin_unlock(pthread_spinlock_t *);
void * __real_memcpy(void *, const void *, size_t);
void * __real_memmove(void *, const void *, size_t);
void * __real_memset(void *, int, size_t);
}

namespace simrt {
namespace {

using VC = uint32_t[kMaxFibers];

enum FState {F_UNUSED = 0, F_RUNNABLE, F_BLOCKED, F_DONE};

struct Fiber
{
  ucontext_t ctx;
  void * stack = nullptr;
  FState state = F_UNUSED;
  void (* fn)(void *) = nullptr;
  void * arg = nullptr;
  const char * role = "";
  const char * opLabel = "(outside any API call)";
  const char * objClass = "";
  VC vc;
  int locksHeld = 0;
  int priority = 0;
  uintptr_t blockedOn = 0;
};

struct SyncObj
{
  int owner = -1;        // mutex / write lock owner
  int depth = 0;         // extra acquisitions of a recursive mutex by its owner
  int readers = 0;       // rwlock
  VC vc;                 // release clock
  int state = 0;         // once / guard: 0 fresh, 1 in progress, 2 done
  SyncObj() {std::memset(vc, 0, sizeof vc);}
};

struct ShadowEntry
{
  uint32_t epoch; uint8_t fiber; uint8_t mask; uint8_t isWrite; uint8_t isAtomic;
  const char * opLabel; const char * objClass; uintptr_t pc;
};
struct ShadowCell
{
  uintptr_t key; uint32_t gen; uint32_t next; ShadowEntry e[4];
};

constexpr size_t kStack = 512 * 1024;
constexpr size_t kShadowSlots = 1u << 17;

bool gActive = false;        // a simulated run is in progress
bool gInRt = false;          // re-entrancy guard for allocator hooks
Config gCfg;
Fiber gF[kMaxFibers];
int gN = 1;                  // number of fibers in use (0 = main)
int gCur = 0;
ucontext_t gMainCtx;
Stats gStats;
Failure gFail;
std::vector<int> gTrace;
size_t gTraceIdx = 0;
sim::Rng gRngSched(1), gRngYield(2);
uint64_t gStamp = 0;
std::unordered_map<uintptr_t, SyncObj> * gSync = nullptr;
ShadowCell * gShadow = nullptr;
uint32_t gGen = 0;
size_t gShadowUsed = 0;
bool gHarnessError = false;
std::string gHarnessWhat;
int gSliceLeft = 0;
std::vector<uint64_t> gPctChange;
int gPctLow = 0;
uint64_t gYieldPoints = 0;

// Re-entrancy guard: template code shared with the instrumented objects (weak symbols resolve to the
// instrumented copy) calls the hooks from inside the runtime; those calls must be ignored.
struct RtGuard
{
  bool entered;
  RtGuard() : entered(!gInRt) {gInRt = true;}
  ~RtGuard() {if (entered) {gInRt = false;}}
};

void vcJoin(VC a, const VC b) {for (int k = 0; k < kMaxFibers; ++k) {if (b[k] > a[k]) {a[k] = b[k];}}}

std::string symbolOf(uintptr_t pc)
{
  Dl_info info;
  if (pc && dladdr((void *)pc, &info) && info.dli_sname) {
    int st = 0; char * d = abi::__cxa_demangle(info.dli_sname, nullptr, nullptr, &st);
    std::string s = (st == 0 && d) ? d : info.dli_sname;
    std::free(d);
    return s;
  }
  return "?";
}

[[noreturn]] void abortRun()
{
  // abandon every simulated thread: only simulated locks exist, so nothing real is left held
  gActive = false;
  if (gCur != 0) {int from = gCur; gCur = 0; swapcontext(&gF[from].ctx, &gMainCtx);}
  // called from the main context: cannot unwind the caller; this must not happen
  std::fprintf(stderr, "simrt: abortRun from main context\n");
  std::abort();
}

void setFailure(const char * cls, const std::string & detail, const std::string & sig)
{
  if (!gFail.failed) {gFail.failed = true; gFail.cls = cls; gFail.detail = detail; gFail.sig = sig;}
}

// ---------------------------------------------------------------- scheduler
int pickNext(bool curRunnable)
{
  int cand[kMaxFibers]; int n = 0;
  for (int k = 1; k < gN; ++k) {if (gF[k].state == F_RUNNABLE) {cand[n++] = k;}}
  if (n == 0) {return -1;}
  if (n == 1) {return cand[0];}
  ++gStats.decisions;
  int choice = -2;
  auto stay = [&]() {return (curRunnable && gCur > 0) ? gCur : cand[0];};
  if (gCfg.useTrace) {
    int t = gTraceIdx < gCfg.traceLen ? gCfg.traceIn[gTraceIdx] : -1;
    ++gTraceIdx;
    if (t > 0 && t < gN && gF[t].state == F_RUNNABLE) {choice = t;} else {choice = stay();}
  } else {
    switch (gCfg.policy) {
      case 1: {   // PCT: highest priority runnable
          int best = cand[0];
          for (int k = 1; k < n; ++k) {if (gF[cand[k]].priority > gF[best].priority) {best = cand[k];}}
          choice = best;
          break;
        }
      case 2: {   // time slices
          if (curRunnable && gCur > 0 && gSliceLeft > 0) {--gSliceLeft; choice = gCur;} else {
            choice = cand[gRngSched.below((uint64_t)n)];
            int m = std::max(1, gCfg.sliceMean);
            gSliceLeft = (int)gRngSched.below((uint64_t)(2 * m)) ;
          }
          break;
        }
      default:
        choice = cand[gRngSched.below((uint64_t)n)];
    }
  }
  if (gCfg.recordTrace) {gTrace.push_back(choice == stay() ? -1 : choice);}
  return choice;
}

void switchTo(int next)
{
  int prev = gCur;
  if (next == prev) {return;}
  ++gStats.switches;
  if (prev > 0 && gF[prev].state == F_RUNNABLE) {
    ++gStats.preemptions;
    if (gF[prev].locksHeld > 0) {++gStats.preemptedHoldingLock;}
  }
  gCur = next;
  swapcontext(&gF[prev].ctx, &gF[next].ctx);
  gInRt = true;   // resumed: still inside the hook that yielded
}

void yieldPoint()
{
  if (!gActive || gCur == 0) {return;}
  ++gStats.steps; ++gYieldPoints;
  if (gStats.steps > gCfg.maxSteps) {
    setFailure("step-cap", "the run exceeded the cap on scheduler steps (possible livelock)", "step-cap");
    abortRun();
  }
  if (gCfg.policy == 1 && !gCfg.useTrace) {
    for (uint64_t cp : gPctChange) {if (cp == gYieldPoints) {gF[gCur].priority = --gPctLow;}}
  }
  int next = pickNext(true);
  if (next >= 0 && next != gCur) {switchTo(next);}
}

void blockOn(uintptr_t obj)
{
  gF[gCur].state = F_BLOCKED; gF[gCur].blockedOn = obj;
  int next = pickNext(false);
  if (next < 0) {
    std::string who;
    for (int k = 1; k < gN; ++k) {
      if (gF[k].state == F_BLOCKED) {who += std::string(who.empty() ? "" : ", ") + gF[k].role + " in " + gF[k].opLabel;}
    }
    setFailure("deadlock", "every simulated thread is blocked: " + who, std::string("deadlock|") + gF[gCur].objClass);
    abortRun();
  }
  switchTo(next);
}

void wake(uintptr_t obj)
{
  for (int k = 1; k < gN; ++k) {
    if (gF[k].state == F_BLOCKED && gF[k].blockedOn == obj) {gF[k].state = F_RUNNABLE; gF[k].blockedOn = 0;}
  }
}

void fiberMain()
{
  int me = gCur;
  gInRt = false;          // a fresh thread starts in user code
  gF[me].fn(gF[me].arg);
  gInRt = true;
  gF[me].state = F_DONE;
  // join edge towards main
  vcJoin(gF[0].vc, gF[me].vc);
  int next = pickNext(false);
  if (next < 0) {
    bool blocked = false;
    for (int k = 1; k < gN; ++k) {if (gF[k].state == F_BLOCKED) {blocked = true;}}
    if (blocked) {
      setFailure("deadlock", "a simulated thread finished while others stay blocked forever", std::string("deadlock|") + gF[me].objClass);
    }
    gCur = 0;
    swapcontext(&gF[me].ctx, &gMainCtx);
  } else {
    gCur = next; ++gStats.switches;
    swapcontext(&gF[me].ctx, &gF[next].ctx);
  }
  std::abort();  // a finished fiber is never resumed
}

void syncEvent(int op, uintptr_t obj)
{
  // hash of (thread, sync op, object identity by first-use order) -> distinct interleavings measure
  gStats.syncHash = sim::mix64(gStats.syncHash, ((uint64_t)gCur << 8) | (uint64_t)op);
  (void)obj;
}

SyncObj & syncObj(uintptr_t a) {return (*gSync)[a];}

void acquireFrom(SyncObj & s) {vcJoin(gF[gCur].vc, s.vc);}
void releaseTo(SyncObj & s) {vcJoin(s.vc, gF[gCur].vc); ++gF[gCur].vc[gCur];}

// ---------------------------------------------------------------- shadow memory
ShadowCell * shadowFind(uintptr_t g, bool create)
{
  size_t h = (size_t)(sim::mix64(g, 0x51ed) & (kShadowSlots - 1));
  for (size_t probe = 0; probe < kShadowSlots; ++probe) {
    ShadowCell & c = gShadow[(h + probe) & (kShadowSlots - 1)];
    if (c.gen != gGen) {
      if (!create) {return nullptr;}
      if (gShadowUsed > kShadowSlots * 3 / 4) {return nullptr;}  // can only lose races, never invent one
      c.gen = gGen; c.key = g; c.next = 0; std::memset(c.e, 0, sizeof c.e); ++gShadowUsed;
      return &c;
    }
    if (c.key == g) {return &c;}
  }
  return nullptr;
}

void shadowClearRange(uintptr_t a, size_t n)
{
  if (!gShadow || n == 0) {return;}
  if (n > (1u << 20)) {n = 1u << 20;}
  for (uintptr_t g = a >> 3; g <= (a + n - 1) >> 3; ++g) {
    ShadowCell * c = shadowFind(g, false);
    if (c) {std::memset(c->e, 0, sizeof c->e); c->next = 0;}
  }
}

void reportRace(const ShadowEntry & e, uintptr_t addr, bool isWrite, bool isAtomic, uintptr_t pc)
{
  const Fiber & me = gF[gCur];
  std::string a = std::string(e.opLabel), b = std::string(me.opLabel);
  std::string sigA = a, sigB = b;
  if (sigB < sigA) {std::swap(sigA, sigB);}
  std::string sig = "race|" + std::string(me.objClass[0] ? me.objClass : e.objClass) + "|" + sigA + " <-> " + sigB;
  char buf[64]; std::snprintf(buf, sizeof buf, "%p", (void *)addr);
  std::string d = std::string("data race on ") + buf + ": " + (e.isWrite ? "write" : "read") + (e.isAtomic ? " (atomic)" : "") +
    " by thread " + std::to_string(e.fiber) + " (" + gF[e.fiber].role + ") during " + a + " in " + symbolOf(e.pc) +
    "  versus  " + (isWrite ? "write" : "read") + (isAtomic ? " (atomic)" : "") + " by thread " + std::to_string(gCur) + " (" + me.role +
    ") during " + b + " in " + symbolOf(pc) + "; the two accesses are not ordered by any lock, atomic or fork/join edge";
  setFailure("race", d, sig);
  abortRun();
}

inline void access(uintptr_t addr, size_t size, bool isWrite, bool isAtomic, uintptr_t pc)
{
  if (!gActive || !gCfg.detectRaces || size == 0) {return;}
  const int f = gCur;
  const uint32_t epoch = gF[f].vc[f];
  uintptr_t end = addr + size;
  for (uintptr_t g = addr >> 3; g <= (end - 1) >> 3; ++g) {
    uintptr_t lo = std::max(addr, g << 3), hi = std::min(end, (g + 1) << 3);
    uint8_t mask = (uint8_t)(((1u << (hi - lo)) - 1u) << (lo - (g << 3)));
    ShadowCell * c = shadowFind(g, true);
    if (!c) {continue;}
    int slot = -1;
    for (int k = 0; k < 4; ++k) {
      ShadowEntry & e = c->e[k];
      if (!e.mask) {if (slot < 0) {slot = k;} continue;}
      if (e.fiber == f) {
        // same thread: an older entry that the new access subsumes is replaced
        if ((e.mask & ~mask) == 0 && (isWrite || !e.isWrite) && (e.isAtomic == (uint8_t)isAtomic || !isAtomic)) {slot = k;}
        continue;
      }
      if (!(e.mask & mask)) {continue;}
      if (!(isWrite || e.isWrite)) {continue;}
      if (isAtomic && e.isAtomic) {continue;}
      if (e.epoch > gF[f].vc[e.fiber]) {reportRace(e, std::max(addr, g << 3), isWrite, isAtomic, pc);}
    }
    if (slot < 0) {slot = (int)(c->next++ & 3);}
    ShadowEntry & w = c->e[slot];
    w.epoch = epoch; w.fiber = (uint8_t)f; w.mask = mask; w.isWrite = isWrite; w.isAtomic = isAtomic;
    w.opLabel = gF[f].opLabel; w.objClass = gF[f].objClass; w.pc = pc;
  }
}

inline void plainAccess(void * p, size_t n, bool w, uintptr_t pc)
{
  if (!gActive || gInRt) {return;}
  RtGuard guard;
  ++gStats.plainAccesses;
  access((uintptr_t)p, n, w, false, pc);
  if (gCur > 0 && gCfg.yieldShift >= 0) {
    if ((gRngYield.next() & ((1ULL << gCfg.yieldShift) - 1)) == 0) {++gStats.plainYields; yieldPoint();}
  }
}

void unmodelled(const char * what)
{
  if (!gHarnessError) {gHarnessError = true; gHarnessWhat = what;}
}

// ---------------------------------------------------------------- simulated locks
int mutexLock(uintptr_t m, bool tryOnly, bool recursive = false)
{
  yieldPoint();
  for (;; ) {
    SyncObj & s = syncObj(m);
    if (recursive && s.owner == gCur) {++s.depth; return 0;}   // PTHREAD_MUTEX_RECURSIVE (std::recursive_mutex)
    if (s.owner < 0 && s.readers == 0) {
      s.owner = gCur; acquireFrom(s); ++gF[gCur].locksHeld; ++gStats.lockAcquires; syncEvent(1, m);
      return 0;
    }
    if (tryOnly) {return 16 /*EBUSY*/;}
    if (s.owner == gCur) {
      setFailure("deadlock", std::string("thread ") + gF[gCur].role + " locks a mutex it already holds during " + gF[gCur].opLabel,
        std::string("deadlock|") + gF[gCur].objClass + "|self");
      abortRun();
    }
    ++gStats.contendedLocks;
    if (gCur == 0) {std::fprintf(stderr, "simrt: main context blocked on a mutex\n"); std::abort();}
    blockOn(m);
  }
}
// A lock call with a deadline (std::timed_mutex::try_lock_for / try_lock_until). There is no clock in the simulation: when
// the mutex is held by another thread the seeded scheduler decides whether the deadline passes first (ETIMEDOUT, the
// injected fault) or the caller waits for the mutex; an uncontended call simply acquires it.
int mutexTimedLock(uintptr_t m, bool recursive)
{
  {
    SyncObj & s = syncObj(m);
    bool contended = !(s.owner < 0 && s.readers == 0) && !(recursive && s.owner == gCur);
    if (contended && gCur > 0 && (gRngYield.next() & 1)) {++gStats.timedLockTimeouts; yieldPoint(); return 110 /*ETIMEDOUT*/;}
  }
  return mutexLock(m, false, recursive);
}
int mutexUnlock(uintptr_t m)
{
  SyncObj & s = syncObj(m);
  if (s.owner == gCur && s.depth > 0) {--s.depth; return 0;}
  if (s.owner == gCur) {s.owner = -1; releaseTo(s); --gF[gCur].locksHeld; syncEvent(2, m); wake(m);} else if (s.readers > 0) {
    --s.readers; releaseTo(s); --gF[gCur].locksHeld; syncEvent(2, m); if (s.readers == 0) {wake(m);}
  }
  yieldPoint();
  return 0;
}
int rwRead(uintptr_t m, bool tryOnly)
{
  yieldPoint();
  for (;; ) {
    SyncObj & s = syncObj(m);
    if (s.owner < 0) {++s.readers; acquireFrom(s); ++gF[gCur].locksHeld; ++gStats.lockAcquires; syncEvent(3, m); return 0;}
    if (tryOnly) {return 16;}
    ++gStats.contendedLocks;
    blockOn(m);
  }
}

}  // namespace

// ---------------------------------------------------------------- public API
void begin(const Config & cfg)
{
  gInRt = true;
  gCfg = cfg;
  if (!gShadow) {
    gShadow = (ShadowCell *)mmap(nullptr, sizeof(ShadowCell) * kShadowSlots, PROT_READ | PROT_WRITE,
        MAP_PRIVATE | MAP_ANONYMOUS | MAP_NORESERVE, -1, 0);
    if (gShadow == MAP_FAILED) {std::perror("mmap shadow"); std::abort();}
  }
  ++gGen; gShadowUsed = 0;
  if (gGen == 0) {std::memset(gShadow, 0, sizeof(ShadowCell) * kShadowSlots); gGen = 1;}
  if (!gSync) {gSync = new std::unordered_map<uintptr_t, SyncObj>();}
  gSync->clear();
  for (int k = 0; k < kMaxFibers; ++k) {
    gF[k].state = F_UNUSED; std::memset(gF[k].vc, 0, sizeof(VC)); gF[k].locksHeld = 0; gF[k].blockedOn = 0;
    gF[k].opLabel = "(outside any API call)"; gF[k].objClass = ""; gF[k].priority = 0;
  }
  gF[0].state = F_RUNNABLE; gF[0].vc[0] = 1; gF[0].role = "main";
  gN = 1; gCur = 0;
  gStats = Stats(); gFail = Failure(); gTrace.clear(); gTraceIdx = 0; gStamp = 0;
  gRngSched.reseed(sim::mix64(cfg.seed, 0x5c4ed)); gRngYield.reseed(sim::mix64(cfg.seed, 0x71e1d));
  gSliceLeft = 0; gPctChange.clear(); gPctLow = 0; gYieldPoints = 0;
  gActive = true;
  gInRt = false;
}

int spawn(void (* fn)(void *), void * arg, const char * role)
{
  RtGuard guard;
  if (gN >= kMaxFibers) {unmodelled("too many simulated threads"); return -1;}
  int id = gN++;
  Fiber & f = gF[id];
  if (!f.stack) {
    f.stack = mmap(nullptr, kStack, PROT_READ | PROT_WRITE, MAP_PRIVATE | MAP_ANONYMOUS | MAP_STACK, -1, 0);
    if (f.stack == MAP_FAILED) {std::perror("mmap stack"); std::abort();}
  }
  f.fn = fn; f.arg = arg; f.role = role; f.state = F_RUNNABLE;
  // fork edge: everything main did so far happens-before the new thread
  std::memcpy(f.vc, gF[0].vc, sizeof(VC)); f.vc[id] = 1; ++gF[0].vc[0];
  getcontext(&f.ctx);
  f.ctx.uc_stack.ss_sp = f.stack; f.ctx.uc_stack.ss_size = kStack; f.ctx.uc_link = nullptr;
  makecontext(&f.ctx, (void (*)())fiberMain, 0);
  return id;
}

void runAll()
{
  if (gN <= 1) {return;}
  gInRt = true;
  // PCT set-up: distinct random priorities, d-1 change points
  if (gCfg.policy == 1) {
    std::vector<int> pr;
    for (int k = 1; k < gN; ++k) {pr.push_back(k + kMaxFibers);}
    for (size_t k = pr.size(); k > 1; --k) {std::swap(pr[k - 1], pr[gRngSched.below(k)]);}
    for (int k = 1; k < gN; ++k) {gF[k].priority = pr[(size_t)k - 1];}
    for (int k = 1; k < gCfg.pctDepth; ++k) {gPctChange.push_back(1 + gRngSched.below(std::max<uint64_t>(1, gCfg.pctSteps)));}
    gPctLow = 0;
  }
  int first = pickNext(false);
  if (first < 0) {gInRt = false; return;}
  gCur = first;
  swapcontext(&gMainCtx, &gF[first].ctx);
  // back in main: either everybody is done or the run was aborted
  gCur = 0;
  for (int k = 1; k < gN; ++k) {vcJoin(gF[0].vc, gF[k].vc);}
  gInRt = false;
}

void end()
{
  gActive = false;
}

void opBegin(const char * label, const char * objectClass)
{
  if (!gActive || gInRt) {return;}
  RtGuard guard;
  gF[gCur].opLabel = label; gF[gCur].objClass = objectClass;
  syncEvent(10, 0);
  yieldPoint();
}
void opEnd()
{
  if (!gActive || gInRt) {return;}
  RtGuard guard;
  syncEvent(11, 0);
  yieldPoint();
  gF[gCur].opLabel = "(outside any API call)";
}
uint64_t stamp() {return ++gStamp;}
int self() {return gCur;}
void fail(const char * cls, const std::string & detail, const std::string & sig)
{
  gInRt = true;
  setFailure(cls, detail, sig);
  abortRun();
}
bool failed() {return gFail.failed;}
const Failure & failure() {return gFail;}
const Stats & stats() {return gStats;}
const std::vector<int> & trace() {return gTrace;}
bool harnessError(std::string * what) {if (what) {*what = gHarnessWhat;} return gHarnessError;}

}  // namespace simrt

using namespace simrt;

// ---------------------------------------------------------------- allocator hooks
// free() is interposed for the whole process (also for libstdc++'s internal deallocations), so that the
// shadow of a released block never leaks into the next owner of the same addresses.
extern "C" void free(void * p)
{
  if (p && gActive && !gInRt && gShadow) {RtGuard guard; shadowClearRange((uintptr_t)p, malloc_usable_size(p));}
  __libc_free(p);
}
extern "C" void * realloc(void * p, size_t n)
{
  if (p && gActive && !gInRt && gShadow) {RtGuard guard; shadowClearRange((uintptr_t)p, malloc_usable_size(p));}
  return __libc_realloc(p, n);
}

// ---------------------------------------------------------------- pthread wrappers (-Wl,--wrap=...)
extern "C" {

int __wrap_pthread_mutex_lock(pthread_mutex_t * m)
{
  if (!gActive || gInRt) {return __real_pthread_mutex_lock(m);}
  RtGuard guard;
  return mutexLock((uintptr_t)m, false, (m->__data.__kind & 3) == PTHREAD_MUTEX_RECURSIVE_NP);
}
int __wrap_pthread_mutex_trylock(pthread_mutex_t * m)
{
  if (!gActive || gInRt) {return __real_pthread_mutex_trylock(m);}
  RtGuard guard;
  return mutexLock((uintptr_t)m, true, (m->__data.__kind & 3) == PTHREAD_MUTEX_RECURSIVE_NP);
}
int __wrap_pthread_mutex_timedlock(pthread_mutex_t * m, const struct timespec * ts)
{
  if (!gActive || gInRt) {return __real_pthread_mutex_timedlock(m, ts);}
  RtGuard guard;
  return mutexTimedLock((uintptr_t)m, (m->__data.__kind & 3) == PTHREAD_MUTEX_RECURSIVE_NP);
}
int __wrap_pthread_mutex_clocklock(pthread_mutex_t * m, clockid_t clk, const struct timespec * ts)
{
  if (!gActive || gInRt) {return __real_pthread_mutex_clocklock(m, clk, ts);}
  RtGuard guard;
  return mutexTimedLock((uintptr_t)m, (m->__data.__kind & 3) == PTHREAD_MUTEX_RECURSIVE_NP);
}
int __wrap_pthread_mutex_unlock(pthread_mutex_t * m)
{
  if (!gActive || gInRt) {return __real_pthread_mutex_unlock(m);}
  RtGuard guard;
  return mutexUnlock((uintptr_t)m);
}
int __wrap_pthread_rwlock_wrlock(pthread_rwlock_t * m)
{
  if (!gActive || gInRt) {return __real_pthread_rwlock_wrlock(m);}
  RtGuard guard;
  return mutexLock((uintptr_t)m, false);
}
int __wrap_pthread_rwlock_trywrlock(pthread_rwlock_t * m)
{
  if (!gActive || gInRt) {return __real_pthread_rwlock_trywrlock(m);}
  RtGuard guard;
  return mutexLock((uintptr_t)m, true);
}
int __wrap_pthread_rwlock_rdlock(pthread_rwlock_t * m)
{
  if (!gActive || gInRt) {return __real_pthread_rwlock_rdlock(m);}
  RtGuard guard;
  return rwRead((uintptr_t)m, false);
}
int __wrap_pthread_rwlock_tryrdlock(pthread_rwlock_t * m)
{
  if (!gActive || gInRt) {return __real_pthread_rwlock_tryrdlock(m);}
  RtGuard guard;
  return rwRead((uintptr_t)m, true);
}
int __wrap_pthread_rwlock_unlock(pthread_rwlock_t * m)
{
  if (!gActive || gInRt) {return __real_pthread_rwlock_unlock(m);}
  RtGuard guard;
  return mutexUnlock((uintptr_t)m);
}
int __wrap_pthread_spin_lock(pthread_spinlock_t * m)
{
  if (!gActive || gInRt) {return __real_pthread_spin_lock(m);}
  RtGuard guard;
  return mutexLock((uintptr_t)m, false);
}
int __wrap_pthread_spin_unlock(pthread_spinlock_t * m)
{
  if (!gActive || gInRt) {return __real_pthread_spin_unlock(m);}
  RtGuard guard;
  return mutexUnlock((uintptr_t)m);
}
// one-time initialisation is synchronisation too
int __wrap_pthread_once(pthread_once_t * o, void (* fn)(void))
{
  if (!gActive || gInRt) {return __real_pthread_once(o, fn);}
  RtGuard guard;
  yieldPoint();
  for (;; ) {
    SyncObj & s = syncObj((uintptr_t)o);
    if (s.state == 2) {acquireFrom(s); return 0;}
    if (s.state == 0) {
      s.state = 1; fn();
      SyncObj & s2 = syncObj((uintptr_t)o); s2.state = 2; releaseTo(s2); wake((uintptr_t)o);
      return 0;
    }
    blockOn((uintptr_t)o);
  }
}
int __wrap___cxa_guard_acquire(long long * g)
{
  if (!gActive || gInRt) {return __real___cxa_guard_acquire(g);}
  RtGuard guard;
  if (*(volatile char *)g) {SyncObj & s = syncObj((uintptr_t)g); acquireFrom(s); return 0;}
  yieldPoint();
  for (;; ) {
    SyncObj & s = syncObj((uintptr_t)g);
    if (*(volatile char *)g) {acquireFrom(s); return 0;}
    if (s.state == 0) {s.state = 1; return 1;}
    blockOn((uintptr_t)g);
  }
}
void __wrap___cxa_guard_release(long long * g)
{
  if (!gActive || gInRt) {__real___cxa_guard_release(g); return;}
  RtGuard guard;
  SyncObj & s = syncObj((uintptr_t)g);
  if (s.state != 1) {__real___cxa_guard_release(g); return;}   // acquired outside a run
  *(volatile char *)g = 1; s.state = 2; releaseTo(s); wake((uintptr_t)g);
}
void __wrap___cxa_guard_abort(long long * g)
{
  if (!gActive || gInRt) {__real___cxa_guard_abort(g); return;}
  RtGuard guard;
  SyncObj & s = syncObj((uintptr_t)g); s.state = 0; wake((uintptr_t)g);
}
// blocking primitives that are not modelled make the check exit 2, never a VIOLATION
int __wrap_pthread_cond_wait(pthread_cond_t * c, pthread_mutex_t * m)
{
  if (!gActive || gInRt) {return __real_pthread_cond_wait(c, m);}
  RtGuard guard;
  unmodelled("pthread_cond_wait"); return 0;
}
int __wrap_pthread_cond_timedwait(pthread_cond_t * c, pthread_mutex_t * m, const struct timespec * t)
{
  if (!gActive || gInRt) {return __real_pthread_cond_timedwait(c, m, t);}
  RtGuard guard;
  unmodelled("pthread_cond_timedwait"); return 0;
}
int __wrap_pthread_cond_signal(pthread_cond_t * c)
{
  if (!gActive || gInRt) {return __real_pthread_cond_signal(c);}
  RtGuard guard;
  unmodelled("pthread_cond_signal"); return 0;
}
int __wrap_pthread_cond_broadcast(pthread_cond_t * c)
{
  if (!gActive || gInRt) {return __real_pthread_cond_broadcast(c);}
  RtGuard guard;
  unmodelled("pthread_cond_broadcast"); return 0;
}

// ---------------------------------------------------------------- range accesses
void * __wrap_memcpy(void * d, const void * s, size_t n)
{
  if (gActive && !gInRt && n) {
    RtGuard guard;
    uintptr_t pc = (uintptr_t)__builtin_return_address(0);
    ++gStats.rangeAccesses;
    access((uintptr_t)s, std::min<size_t>(n, 65536), false, false, pc);
    access((uintptr_t)d, std::min<size_t>(n, 65536), true, false, pc);
  }
  return __real_memcpy(d, s, n);
}
void * __wrap_memmove(void * d, const void * s, size_t n)
{
  if (gActive && !gInRt && n) {
    RtGuard guard;
    uintptr_t pc = (uintptr_t)__builtin_return_address(0);
    ++gStats.rangeAccesses;
    access((uintptr_t)s, std::min<size_t>(n, 65536), false, false, pc);
    access((uintptr_t)d, std::min<size_t>(n, 65536), true, false, pc);
  }
  return __real_memmove(d, s, n);
}
void * __wrap_memset(void * d, int c, size_t n)
{
  if (gActive && !gInRt && n) {
    RtGuard guard;
    ++gStats.rangeAccesses;
    access((uintptr_t)d, std::min<size_t>(n, 65536), true, false, (uintptr_t)__builtin_return_address(0));
  }
  return __real_memset(d, c, n);
}

// ---------------------------------------------------------------- the instrumentation interface
#define PC ((uintptr_t)__builtin_return_address(0))
void __tsan_init() {}
void __tsan_func_entry(void *) {}
void __tsan_func_exit() {}
void __tsan_read1(void * p) {plainAccess(p, 1, false, PC);}
void __tsan_read2(void * p) {plainAccess(p, 2, false, PC);}
void __tsan_read4(void * p) {plainAccess(p, 4, false, PC);}
void __tsan_read8(void * p) {plainAccess(p, 8, false, PC);}
void __tsan_read16(void * p) {plainAccess(p, 16, false, PC);}
void __tsan_write1(void * p) {plainAccess(p, 1, true, PC);}
void __tsan_write2(void * p) {plainAccess(p, 2, true, PC);}
void __tsan_write4(void * p) {plainAccess(p, 4, true, PC);}
void __tsan_write8(void * p) {plainAccess(p, 8, true, PC);}
void __tsan_write16(void * p) {plainAccess(p, 16, true, PC);}
void __tsan_unaligned_read2(void * p) {plainAccess(p, 2, false, PC);}
void __tsan_unaligned_read4(void * p) {plainAccess(p, 4, false, PC);}
void __tsan_unaligned_read8(void * p) {plainAccess(p, 8, false, PC);}
void __tsan_unaligned_read16(void * p) {plainAccess(p, 16, false, PC);}
void __tsan_unaligned_write2(void * p) {plainAccess(p, 2, true, PC);}
void __tsan_unaligned_write4(void * p) {plainAccess(p, 4, true, PC);}
void __tsan_unaligned_write8(void * p) {plainAccess(p, 8, true, PC);}
void __tsan_unaligned_write16(void * p) {plainAccess(p, 16, true, PC);}
void __tsan_read1_pc(void * p, void * pc) {plainAccess(p, 1, false, (uintptr_t)pc);}
void __tsan_read2_pc(void * p, void * pc) {plainAccess(p, 2, false, (uintptr_t)pc);}
void __tsan_read4_pc(void * p, void * pc) {plainAccess(p, 4, false, (uintptr_t)pc);}
void __tsan_read8_pc(void * p, void * pc) {plainAccess(p, 8, false, (uintptr_t)pc);}
void __tsan_read16_pc(void * p, void * pc) {plainAccess(p, 16, false, (uintptr_t)pc);}
void __tsan_write1_pc(void * p, void * pc) {plainAccess(p, 1, true, (uintptr_t)pc);}
void __tsan_write2_pc(void * p, void * pc) {plainAccess(p, 2, true, (uintptr_t)pc);}
void __tsan_write4_pc(void * p, void * pc) {plainAccess(p, 4, true, (uintptr_t)pc);}
void __tsan_write8_pc(void * p, void * pc) {plainAccess(p, 8, true, (uintptr_t)pc);}
void __tsan_write16_pc(void * p, void * pc) {plainAccess(p, 16, true, (uintptr_t)pc);}
void __tsan_read_range(void * p, size_t n) {plainAccess(p, std::min<size_t>(n, 65536), false, PC);}
void __tsan_write_range(void * p, size_t n) {plainAccess(p, std::min<size_t>(n, 65536), true, PC);}
void __tsan_read_range_pc(void * p, size_t n, void * pc) {plainAccess(p, std::min<size_t>(n, 65536), false, (uintptr_t)pc);}
void __tsan_write_range_pc(void * p, size_t n, void * pc) {plainAccess(p, std::min<size_t>(n, 65536), true, (uintptr_t)pc);}
void __tsan_vptr_read(void ** p) {plainAccess((void *)p, 8, false, PC);}
void __tsan_vptr_update(void ** p, void * v) {if (*p != v) {plainAccess((void *)p, 8, true, PC);}}
void * __tsan_memcpy(void * d, const void * s, size_t n) {return __wrap_memcpy(d, s, n);}
void * __tsan_memmove(void * d, const void * s, size_t n) {return __wrap_memmove(d, s, n);}
void * __tsan_memset(void * d, int c, size_t n) {return __wrap_memset(d, c, n);}
void __tsan_acquire(void * p) {if (gActive && !gInRt) {RtGuard guard; acquireFrom(syncObj((uintptr_t)p));}}
void __tsan_release(void * p) {if (gActive && !gInRt) {RtGuard guard; releaseTo(syncObj((uintptr_t)p));}}

// atomics: an atomic access is a yield point, a (possibly) synchronising access, and is recorded in the
// shadow so that a conflicting plain access is reported. Memory orders: 0 relaxed 1 consume 2 acquire
// 3 release 4 acq_rel 5 seq_cst (the values clang passes).
static inline void atomicPre(void * p, size_t n, bool w, int mo, bool rmw, uintptr_t pc)
{
  if (!gActive || gInRt) {return;}
  RtGuard guard;
  ++gStats.atomicOps;
  yieldPoint();
  access((uintptr_t)p, n, w, true, pc);
  SyncObj & s = syncObj((uintptr_t)p);
  bool acq = mo == 1 || mo == 2 || mo == 4 || mo == 5, rel = mo == 3 || mo == 4 || mo == 5;
  if ((!w || rmw) && acq) {acquireFrom(s);}
  if (w && rel) {releaseTo(s);}
  syncEvent(w ? 21 : 20, (uintptr_t)p);
}
#define ATOMIC_FAMILY(N, T) \
  T __tsan_atomic ## N ## _load(const volatile T * a, int mo) {atomicPre((void *)a, sizeof(T), false, mo, false, PC); return *a;} \
  void __tsan_atomic ## N ## _store(volatile T * a, T v, int mo) {atomicPre((void *)a, sizeof(T), true, mo, false, PC); *a = v;} \
  T __tsan_atomic ## N ## _exchange(volatile T * a, T v, int mo) {atomicPre((void *)a, sizeof(T), true, mo, true, PC); T o = *a; *a = v; return o;} \
  T __tsan_atomic ## N ## _fetch_add(volatile T * a, T v, int mo) {atomicPre((void *)a, sizeof(T), true, mo, true, PC); T o = *a; *a = (T)(o + v); return o;} \
  T __tsan_atomic ## N ## _fetch_sub(volatile T * a, T v, int mo) {atomicPre((void *)a, sizeof(T), true, mo, true, PC); T o = *a; *a = (T)(o - v); return o;} \
  T __tsan_atomic ## N ## _fetch_and(volatile T * a, T v, int mo) {atomicPre((void *)a, sizeof(T), true, mo, true, PC); T o = *a; *a = (T)(o & v); return o;} \
  T __tsan_atomic ## N ## _fetch_or(volatile T * a, T v, int mo) {atomicPre((void *)a, sizeof(T), true, mo, true, PC); T o = *a; *a = (T)(o | v); return o;} \
  T __tsan_atomic ## N ## _fetch_xor(volatile T * a, T v, int mo) {atomicPre((void *)a, sizeof(T), true, mo, true, PC); T o = *a; *a = (T)(o ^ v); return o;} \
  T __tsan_atomic ## N ## _fetch_nand(volatile T * a, T v, int mo) {atomicPre((void *)a, sizeof(T), true, mo, true, PC); T o = *a; *a = (T) ~(o & v); return o;} \
  int __tsan_atomic ## N ## _compare_exchange_strong(volatile T * a, T * c, T v, int mo, int) { \
    atomicPre((void *)a, sizeof(T), true, mo, true, PC); if (*a == *c) {*a = v; return 1;} *c = *a; return 0;} \
  int __tsan_atomic ## N ## _compare_exchange_weak(volatile T * a, T * c, T v, int mo, int) { \
    atomicPre((void *)a, sizeof(T), true, mo, true, PC); if (*a == *c) {*a = v; return 1;} *c = *a; return 0;} \
  T __tsan_atomic ## N ## _compare_exchange_val(volatile T * a, T c, T v, int mo, int) { \
    atomicPre((void *)a, sizeof(T), true, mo, true, PC); T o = *a; if (o == c) {*a = v;} return o;}
ATOMIC_FAMILY(8, uint8_t)
ATOMIC_FAMILY(16, uint16_t)
ATOMIC_FAMILY(32, uint32_t)
ATOMIC_FAMILY(64, uint64_t)
ATOMIC_FAMILY(128, __uint128_t)
// fences: approximated by acquire+release on one global object (adds happens-before edges, so it can
// only hide a race, never invent one)
void __tsan_atomic_thread_fence(int mo)
{
  if (!gActive || gInRt) {return;}
  RtGuard guard;
  yieldPoint();
  SyncObj & s = syncObj(1);
  if (mo == 1 || mo == 2 || mo == 4 || mo == 5) {acquireFrom(s);}
  if (mo == 3 || mo == 4 || mo == 5) {releaseTo(s);}
}
void __tsan_atomic_signal_fence(int) {}

}  // extern "C"
