// E3 schedsim runtime interface: simulated threads (fibers) under a seeded
// scheduler, simulated pthread mutexes, and a vector-clock happens-before race
// detector fed by the compiler's -fsanitize=thread instrumentation calls.
// The implementation (rt.cpp) is compiled WITHOUT instrumentation.
#pragma once
#include <cstdint>
#include <cstddef>
#include <string>
#include <vector>

namespace simrt {

constexpr int kMaxFibers = 16;  // main context (0) + up to 15 simulated threads

struct Config
{
  uint64_t seed = 1;
  int policy = 0;          // 0 uniform random walk, 1 PCT priorities, 2 random time slices
  int pctDepth = 2;        // PCT: number of priority change points + 1
  uint64_t pctSteps = 1000;  // PCT: estimate of the number of yield points in the run
  int sliceMean = 8;       // time slices: mean quantum in yield points
  int yieldShift = 3;      // a plain access is a yield point with probability 2^-yieldShift; < 0: never
  uint64_t maxSteps = 20000000;
  const int * traceIn = nullptr;  // explicit schedule: choice per decision; -1 = stay with the running thread
  size_t traceLen = 0;
  bool useTrace = false;
  bool recordTrace = false;
  bool detectRaces = true;
};

struct Stats
{
  uint64_t steps = 0, decisions = 0, switches = 0, preemptions = 0;
  uint64_t lockAcquires = 0, contendedLocks = 0, preemptedHoldingLock = 0;
  uint64_t atomicOps = 0, plainAccesses = 0, rangeAccesses = 0, plainYields = 0, timedLockTimeouts = 0;
  uint64_t syncHash = 0;   // hash of the sequence (thread, sync op, object) at synchronisation points
};

struct Failure
{
  bool failed = false;
  std::string cls;       // race | deadlock | torn-read | ... | step-cap
  std::string detail;
  std::string sig;       // stable call-site identity (for races: unordered pair of API operations + object class)
};

void begin(const Config & cfg);
int spawn(void (* fn)(void *), void * arg, const char * role);
void runAll();                       // returns when all threads are done or the run was aborted
void end();

void opBegin(const char * label, const char * objectClass);  // API call boundary (yield point); static strings
void opEnd();
uint64_t stamp();                    // next value of the global event counter
int self();                          // id of the running simulated thread (0 = main)
[[noreturn]] void fail(const char * cls, const std::string & detail, const std::string & sig);

bool failed();
const Failure & failure();
const Stats & stats();
const std::vector<int> & trace();
bool harnessError(std::string * what = nullptr);  // an unmodelled blocking primitive was met

}  // namespace simrt
